#!/usr/bin/env python3
"""Regenerates /verif/MANIFEST.json from the table below (kept in one place so it stays valid)."""
import json, os, subprocess

HERE = os.path.dirname(os.path.dirname(os.path.abspath(__file__)))

# id -> (technique, level text, level note, design section)
CHECKS = {}

def add(pid, technique, text, note, ref):
    CHECKS[pid] = (technique, text, note, ref)

exec(open(os.path.join(HERE, "tools", "manifest_table.py")).read())

props = [json.loads(l) for l in open(os.path.join(HERE, "properties.jsonl"))]
ids = [p["id"] for p in props]

def hook_commits():
    try:
        out = subprocess.run(["git", "-C", "/repo", "log", "--format=%H %s"], capture_output=True, text=True).stdout
        return [l.split()[0] for l in out.splitlines() if l.split(" ", 1)[1].startswith("hooks:")][::-1]
    except Exception:
        return []

checks = []
for pid in ids:
    if pid not in CHECKS:
        continue
    technique, text, note, ref = CHECKS[pid]
    checks.append({
        "property_id": pid,
        "quick_cmd": f"./check {pid} quick",
        "thorough_cmd": f"./check {pid} thorough",
        "evidence_file": f"/verif/evidence/{pid}.json",
        "replay_cmd_template": f"./check {pid} --replay {{path}}",
        "engine": "nverif",
        "level_claimed": {"category": "exploration", "text": text, "design_ref": ref},
        "level_note": note,
        "technique": technique,
    })

na = [{"property_id": pid, "reason": NOT_APPLICABLE.get(pid, "check not built yet (work in progress; see DESIGN.md section 4)")}
      for pid in ids if pid not in CHECKS]

manifest = {
    "version": 1,
    "setup_cmd": "cd /verif/harness && CARGO_NET_OFFLINE=true cargo build --release --offline && CARGO_NET_OFFLINE=true cargo build --profile nodebug --offline",
    "hooks": {
        "guard": "cargo feature `verif` of the neurons crate (off by default)",
        "enable": "the harness depends on neurons = { path = \"/repo\", features = [\"verif\"] }; every ./check run rebuilds it from /repo's working tree",
        "baseline_off_cmd": "cd /repo && cargo test --workspace --no-fail-fast --offline",
        "source_commits": hook_commits(),
        "add_only": True,
    },
    "engines": [{
        "name": "nverif",
        "path": "/verif/harness",
        "serves_properties": [c["property_id"] for c in checks],
        "kind_free_text": "Rust harness: proptest TestRunner over choice-sequence tapes (generation + shrinking + replay), exhaustive enumeration where the domain is finite, libFuzzer targets over the same decode+check pairs; explicit oracles (f64 reference operators, numerical differentiation, replayed reference trainer, dropout-free twin, statement-derived models, round-trips, metamorphic relations)",
    }],
    "checks": checks,
    "not_applicable": na,
    "notes": NOTES,
}
json.dump(manifest, open(os.path.join(HERE, "MANIFEST.json"), "w"), indent=1)
print("wrote MANIFEST.json:", len(checks), "checks,", len(na), "not claimed")
