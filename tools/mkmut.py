#!/usr/bin/env python3
"""mkmut.py NAME FILE 'old' 'new' [occurrence]  -> writes mutants/NAME.diff (a patch against /repo HEAD)"""
import sys, subprocess
name, f, old, new = sys.argv[1:5]
occ = int(sys.argv[5]) if len(sys.argv) > 5 else 0
p = '/repo/' + f
s = open(p).read()
parts = s.split(old)
assert len(parts) - 1 > occ, f"only {len(parts)-1} occurrences of {old!r}"
s2 = old.join(parts[:occ+1]) + new + old.join(parts[occ+1:])
open(p, 'w').write(s2)
d = subprocess.run(['git', '-C', '/repo', 'diff'], capture_output=True, text=True).stdout
open(f'/verif/mutants/{name}.diff', 'w').write(d)
subprocess.run(['git', '-C', '/repo', 'checkout', '--', '.'])
print('wrote', name, len(d.splitlines()), 'lines')
