#!/usr/bin/env python3
"""Sensitivity protocol (DESIGN.md section 7): every patch in mutants/*.diff (and seeded/*/patch.diff with
--seeded) must compile, pass the 70 pinned unit tests, and be detected by the owning property's QUICK check
within three seeds. Writes mutants/RESULTS.md (or seeded/RESULTS.md)."""
import glob, json, os, re, subprocess, sys, time

V = os.environ.get('NVERIF_V', '/verif')        # a scratch copy of /verif (tools/par_seeded.py), else /verif itself
REPO = os.environ.get('NVERIF_REPO', '/repo')  # the tree the patches are applied to (the harness copy's path dependency)
OUT = os.environ.get('NVERIF_MUT_OUT', '/tmp/mut_out')

def sh(cmd, cwd=None, env=None, timeout=3600):
    return subprocess.run(cmd, shell=True, capture_output=True, text=True, cwd=cwd, env=env, timeout=timeout)

def unit_tests():
    r = sh('cargo test --lib --offline 2>&1 | tail -5', cwd=REPO)
    m = re.search(r'test result: (\w+)\. (\d+) passed; (\d+) failed', r.stdout)
    if not m:
        return 'does not compile', r.stdout[-300:]
    return ('pass' if m.group(1) == 'ok' and m.group(2) == '70' else f'{m.group(2)} passed / {m.group(3)} failed'), ''

def run(patch, prop, tier='quick', seeds=(0, 1, 2), also=()):
    assert sh(f'git -C {REPO} diff --quiet').returncode == 0, REPO + ' dirty'
    r = sh(f'git -C {REPO} apply {patch}')
    if r.returncode != 0:
        return {'status': 'patch does not apply', 'detail': r.stderr[-200:]}
    try:
        ut, det = unit_tests()
        res = {'unit_tests': ut}
        if ut != 'pass':
            res['status'] = 'invalid mutant (' + ut + ')'
            res['detail'] = det
            return res
        for p in (prop,) + tuple(also):
            for seed in seeds:
                t0 = time.time()
                env = dict(os.environ, VERIF_OUT_DIR=OUT, VERIF_SEED=str(seed))
                rr = subprocess.run(['./check', p, tier], cwd=V, env=env, capture_output=True, text=True)
                dt = time.time() - t0
                if rr.returncode == 1:
                    detail = [l for l in rr.stdout.splitlines() if l.startswith('  detail:')]
                    res.update(status='killed', by=p, seed=seed, seconds=round(dt, 1), detail=(detail[0][10:250] if detail else ''))
                    return res
                if rr.returncode == 2:
                    res.update(status='inconclusive (exit 2)', detail=rr.stdout[-300:])
                    return res
        res['status'] = 'SURVIVED'
        return res
    finally:
        sh(f'git -C {REPO} checkout -- .')

def main():
    args = sys.argv[1:]
    seeded = '--seeded' in args
    names = [a for a in args if not a.startswith('--')]
    rows = []
    outside = {}
    if seeded:
        items = []
        for d in sorted(glob.glob(f'{V}/seeded/*/')):
            meta = json.load(open(d + 'meta.json'))
            if meta.get('outside_property'):
                outside[os.path.basename(d.rstrip('/'))] = meta['property']
                continue
            items.append((os.path.basename(d.rstrip('/')), d + 'patch.diff', meta['property'], tuple(meta.get('also_checked_by', []))))
        out = f'{V}/seeded/RESULTS.md'
    else:
        items = [(os.path.basename(p)[:-5], p, os.path.basename(p)[:3], ()) for p in sorted(glob.glob(f'{V}/mutants/*.diff'))]
        out = f'{V}/mutants/RESULTS.md'
    for name, patch, prop, also in items:
        if names and not (name in names if '--exact' in args else any(n in name for n in names)):
            continue
        res = run(patch, prop, also=also)
        rows.append((name, prop, res))
        print(name, res.get('status'), res.get('by', ''), res.get('seconds', ''), (res.get('detail') or '')[:120], flush=True)
    jout = [a.split('=', 1)[1] for a in args if a.startswith('--json=')]
    if jout:  # a parallel worker: hand the rows to tools/par_seeded.py, which merges them
        json.dump([[n, p, r] for n, p, r in rows], open(jout[0], 'w'), indent=1)
        return
    write_results(out, seeded, names, rows, outside)


def write_results(out, seeded, names, rows, outside):
    prev = {}
    if os.path.exists(out) and names:
        for l in open(out):
            c = [x.strip() for x in l.split('|')]
            if len(c) > 6 and c[1] not in ('mutant', '---'):
                prev[c[1]] = l
    with open(out, 'w') as f:
        f.write(f'# {"Seeded changes (sub-agents)" if seeded else "Hand-written mutants"} against the owning quick check (seeds 0, 1, 2)\n\n')
        f.write('| mutant | property | 70 unit tests | result | killed by / seed | seconds | first failing detail |\n|---|---|---|---|---|---|---|\n')
        done = set()
        for name, prop, r in rows:
            done.add(name)
            f.write(f"| {name} | {prop} | {r.get('unit_tests','')} | {r.get('status')} | {r.get('by','')} / {r.get('seed','')} | {r.get('seconds','')} | {(r.get('detail') or '').replace('|','/')[:160]} |\n")
        for k, l in prev.items():
            if k not in done and k not in outside:
                f.write(l)
        for k, prop in sorted(outside.items()):
            f.write(f"| {k} | {prop} |  | outside the property (see meta.json: outside_property) |  /  |  |  |\n")
    surv = [n for n, _, r in rows if r.get('status') == 'SURVIVED']
    print('survivors:', surv)

if __name__ == '__main__':
    main()
