#!/usr/bin/env python3
"""Imports the sub-agents' seeded changes (/tmp/seed_Cxx/out/N) into /verif/seeded/<id>/ after confirming each in
a scratch worktree of /repo (outside /repo and /verif): patch applies, crate builds with --features verif, the 70
unit tests pass with it, the demonstration fails with it and passes without it."""
import glob, json, os, re, shutil, subprocess, sys

WT = os.environ.get('CONFIRM_WT', '/tmp/confirm_wt')

def sh(cmd, cwd=None, timeout=3600):
    return subprocess.run(cmd, shell=True, capture_output=True, text=True, cwd=cwd, timeout=timeout)

def demo_cmd(demo_text):
    m = re.search(r'(cargo test[^\n`]*--test demo[^\n`]*)', demo_text)
    cmd = m.group(1).strip() if m else 'cargo test --offline --features verif --test demo'
    if '--offline' not in cmd:
        cmd += ' --offline'
    return cmd.rstrip('.').strip()

def passed(out):
    ok = re.findall(r'test result: (\w+)\. (\d+) passed; (\d+) failed', out)
    return bool(ok) and all(o[0] == 'ok' for o in ok)

def main():
    only = sys.argv[1:]
    if not os.path.exists(WT):
        r = sh(f'git -C /repo worktree add --detach {WT} HEAD')
        assert r.returncode == 0, r.stderr
    sh('git checkout -q --detach ' + sh('git -C /repo rev-parse HEAD').stdout.strip(), cwd=WT)
    results = []
    rnd = int(os.environ.get('SEED_ROUND', '1'))
    pattern = '/tmp/seed_C*/out/*/' if rnd == 1 else f'/tmp/seed{rnd}_C*/out/*/'
    for d in sorted(glob.glob(pattern)):
        prop = re.search(r'seed\d*_(C\d+)', d).group(1)
        n = int(os.path.basename(d.rstrip('/'))) + 2 * (rnd - 1)
        sid = f'{prop}_{n}'
        if only and sid not in only and prop not in only:
            continue
        patch, demo, notes = d + 'patch.diff', d + 'demo.rs', d + 'notes.md'
        if not (os.path.exists(patch) and os.path.exists(demo)):
            results.append((sid, 'missing files'))
            continue
        sh('git checkout -- . && git clean -fdq -e target', cwd=WT)
        os.makedirs(WT + '/tests', exist_ok=True)
        shutil.copy(demo, WT + '/tests/demo.rs')
        cmd = demo_cmd(open(demo).read())
        clean = sh(cmd + ' 2>&1', cwd=WT)
        ok_clean = passed(clean.stdout)
        ap = sh(f'git apply {patch}', cwd=WT)
        if ap.returncode != 0:
            results.append((sid, 'patch does not apply: ' + ap.stderr[-100:]))
            continue
        unit = sh('cargo test --lib --offline --features verif 2>&1 | tail -4', cwd=WT)
        m = re.search(r'(\d+) passed; (\d+) failed', unit.stdout)
        unit_ok = bool(m) and m.group(1) == '70' and m.group(2) == '0'
        broken = sh(cmd + ' 2>&1', cwd=WT)
        fails_with = (not passed(broken.stdout)) and ('test result' in broken.stdout or 'panicked' in broken.stdout)
        compiled = 'could not compile' not in broken.stdout
        status = 'confirmed' if (ok_clean and unit_ok and fails_with and compiled) else f'NOT confirmed (clean demo passes={ok_clean}, 70 unit tests={unit_ok}, demo fails with change={fails_with}, compiles={compiled})'
        results.append((sid, status))
        print(sid, status, flush=True)
        if status == 'confirmed':
            out = f'/verif/seeded/{sid}'
            os.makedirs(out, exist_ok=True)
            shutil.copy(patch, out + '/patch.diff')
            shutil.copy(demo, out + '/demo.rs')
            if os.path.exists(notes):
                shutil.copy(notes, out + '/notes.md')
            notes_text = open(notes).read() if os.path.exists(notes) else ''
            meta = {
                'id': sid,
                'property': prop,
                'source': 'independent sub-agent given only the property text and a scratch worktree' + ('' if rnd == 1 else f' (round {rnd}: also told which mechanisms the earlier rounds had already produced, to avoid repeats)'),
                'needs_to_manifest': 'see notes.md',
                'confirmed_by': {
                    'scratch_worktree': WT,
                    'unit_tests_with_change': '70 passed, 0 failed (cargo test --lib --offline --features verif)',
                    'demo_command': cmd,
                    'demo_without_change': 'passes',
                    'demo_with_change': 'fails',
                },
                'notes_excerpt': notes_text[:600],
            }
            json.dump(meta, open(out + '/meta.json', 'w'), indent=1)
    sh('git checkout -- . && git clean -fdq -e target', cwd=WT)
    print(results)

if __name__ == '__main__':
    main()
