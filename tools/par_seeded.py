#!/usr/bin/env python3
"""Parallel front end of tools/run_mutants.py for seeded changes: K workers, each with its own clone of /repo's HEAD
and its own copy of /verif (harness path dependency pointed at the clone) under /tmp/par/<k>, so that patches can be
applied side by side without touching /repo. Usage: tools/par_seeded.py [--workers=6] [--keep] [--md=<file>] <ids or
prefixes...>. Rows are merged into seeded/RESULTS.md (or written to --md, e.g. a first-pass record). The scratch
copies are removed at the end. The 70 unit tests are run per patch inside the clone, as in the serial tool."""
import glob, json, os, shutil, subprocess, sys
sys.path.insert(0, os.path.dirname(os.path.abspath(__file__)))

ROOT = os.environ.get('PAR_ROOT', '/tmp/par')

def sh(cmd, **kw):
    return subprocess.run(cmd, shell=True, capture_output=True, text=True, **kw)

def main():
    args = sys.argv[1:]
    k = int(([a.split('=')[1] for a in args if a.startswith('--workers=')] or ['6'])[0])
    md = ([a.split('=', 1)[1] for a in args if a.startswith('--md=')] or [None])[0]
    sel = [a for a in args if not a.startswith('--')]
    hand = '--mutants' in args  # the hand-written mutants/*.diff instead of the seeded changes
    ids = []
    if hand:
        ids = [os.path.basename(f)[:-5] for f in sorted(glob.glob('/verif/mutants/*.diff')) if not sel or any(os.path.basename(f).startswith(x) for x in sel)]
    for d in ([] if hand else sorted(glob.glob('/verif/seeded/*/'))):
        name = os.path.basename(d.rstrip('/'))
        meta = json.load(open(d + 'meta.json'))
        if meta.get('outside_property'):
            continue
        if not sel or any(name == s or name.startswith(s + '_') or (s.endswith('*') and name.startswith(s[:-1])) for s in sel):
            ids.append(name)
    k = max(1, min(k, len(ids)))
    assert sh('git -C /repo diff --quiet').returncode == 0, '/repo dirty'
    procs = []
    for w in range(k):
        base = f'{ROOT}/{w}'
        mine = ids[w::k]
        if not os.path.exists(base + '/repo'):
            os.makedirs(base, exist_ok=True)
            assert sh(f'git clone -q /repo {base}/repo').returncode == 0
        else:
            sh(f'git -C {base}/repo checkout -q -- . && git -C {base}/repo fetch -q && git -C {base}/repo checkout -q --detach ' + sh('git -C /repo rev-parse HEAD').stdout.strip())
        sh(f'rsync -a --delete --exclude .git --exclude harness/target --exclude harness/fuzz/target --exclude harness/fuzz/corpus --exclude harness/fuzz/artifacts /verif/ {base}/verif/')
        sh(f"sed -i 's#path = \"/repo\"#path = \"{base}/repo\"#' {base}/verif/harness/Cargo.toml {base}/verif/harness/fuzz/Cargo.toml")
        env = dict(os.environ, NVERIF_V=base + '/verif', NVERIF_REPO=base + '/repo', NVERIF_MUT_OUT=base + '/out')
        procs.append((w, mine, subprocess.Popen(['python3', base + '/verif/tools/run_mutants.py'] + ([] if hand else ['--seeded']) + ['--exact', f'--json={base}/rows.json'] + mine,
                                                env=env, stdout=open(base + '/log', 'w'), stderr=subprocess.STDOUT)))
    rows = []
    for w, mine, p in procs:
        p.wait()
        try:
            rows += [tuple(r) for r in json.load(open(f'{ROOT}/{w}/rows.json'))]
        except Exception as e:
            print('worker', w, 'failed:', e, open(f'{ROOT}/{w}/log').read()[-500:])
    rows.sort(key=lambda r: (r[1], r[0]) if hand else (r[1], int(r[0].split('_')[-1])))
    for n, p, r in rows:
        print(n, r.get('status'), r.get('by', ''), r.get('seed', ''), r.get('seconds', ''), (r.get('detail') or '')[:140])
    import run_mutants
    outside = {os.path.basename(d.rstrip('/')): json.load(open(d + 'meta.json'))['property'] for d in glob.glob('/verif/seeded/*/') if json.load(open(d + 'meta.json')).get('outside_property')}
    if hand:
        run_mutants.write_results(md or '/verif/mutants/RESULTS.md', False, [] if md else ids, rows, {})
    elif md:
        run_mutants.write_results(md, True, [], rows, {})
    else:
        run_mutants.write_results('/verif/seeded/RESULTS.md', True, ids, rows, outside)
    print('survivors:', [n for n, _, r in rows if r.get('status') != 'killed'])
    if '--keep' not in args:
        shutil.rmtree(ROOT, ignore_errors=True)

if __name__ == '__main__':
    main()
