#!/bin/bash
# usage: tools/try_mutant.sh <patch-file> <ID> [tier] [seed...]   — applies the patch to /repo, runs the check, reverts.
set -u
PATCH=$(readlink -f "$1"); ID=$2; TIER=${3:-quick}; shift 3 2>/dev/null || shift $#
SEEDS=${@:-0}
cd /repo || exit 2
if ! git diff --quiet; then echo "ERROR /repo has uncommitted changes"; exit 2; fi
git apply "$PATCH" || { echo "ERROR patch does not apply"; exit 2; }
trap 'git -C /repo checkout -- . ' EXIT
for s in $SEEDS; do
  ( cd /verif && VERIF_OUT_DIR=/tmp/mut_out VERIF_SEED=$s timeout 3600 ./check $ID $TIER 2>&1 | grep -E "^(VIOLATION|SUMMARY|ERROR|KNOWN|  detail)" | cut -c1-300 | head -8; echo "exit=${PIPESTATUS[0]}" )
done
