# Table consumed by tools/mkmanifest.py
NOTES = ("Technique family: property-based testing / fuzzing (generated-input search against explicit oracles). "
         "./check <ID> quick|thorough; VERIF_SEED selects the PRNG seed; exit 0 held / 1 VIOLATION / 2 inconclusive. "
         "known_findings.json lists recorded/fixed genuine defects; replays/regress holds shrunk regression replays run first in every tier.")
NOT_APPLICABLE = {}

add("C18", "exhaustive state enumeration + proptest over seeds/lengths/intervals; range and permutation oracles",
    "Thorough tier enumerates all 2^31-2 generator states for generate() on 8 intervals and for the shuffle index on 7 lengths (exhaustive for those), "
    "quick enumerates both ends of the state space plus a seed-offset progression; seeds up to u64::MAX, interval classes, shuffle lengths/duplicates and Tensor::random shapes are sampled with proptest. "
    "Exploration level: no claim beyond the enumerated/sampled domain.",
    "Trusts the harness's modular-inverse computation of the seed that leads to a given state; Tensor::random is clock-seeded so only seed-independent assertions are made.",
    "DESIGN.md 4/C18")
