# Table consumed by tools/mkmanifest.py
NOTES = ("Thorough tiers of C03, C06, C08, C11, C14, C15, C16, C17 add a libFuzzer stage (cargo +nightly fuzz, harness/fuzz) over the same tape decode + check pairs; if the nightly/sanitizer build is unavailable the stage is skipped and the evidence says so. " "Technique family: property-based testing / fuzzing (generated-input search against explicit oracles). "
         "./check <ID> quick|thorough; VERIF_SEED selects the PRNG seed; exit 0 held / 1 VIOLATION / 2 inconclusive. "
         "known_findings.json lists recorded/fixed genuine defects; replays/regress holds shrunk regression replays run first in every tier.")
NOT_APPLICABLE = {}

add("C18", "exhaustive state enumeration + proptest over seeds/lengths/intervals; range and permutation oracles",
    "Thorough tier enumerates all 2^31-2 generator states for generate() on 12 intervals (incl. degenerate ones and widths beyond f32::MAX) and for the shuffle index on 7 lengths (exhaustive for those), "
    "quick enumerates both ends of the state space plus a seed-offset progression; seeds up to u64::MAX, interval classes, shuffle lengths/duplicates (rarely > 2^24 elements) and Tensor::random shapes (incl. zero-sized dimensions) are sampled with proptest, as are generator objects that serve two intervals or two shuffles in a row and Tensor::random calls after a refused request. "
    "Exploration level: no claim beyond the enumerated/sampled domain.",
    "Trusts the harness's modular-inverse computation of the seed that leads to a given state; Tensor::random is clock-seeded so only seed-independent assertions are made.",
    "DESIGN.md 4/C18")

add("C03", "stateful history generation (proptest tapes) against an f64 reference model of the documented update equations; metamorphic rank-independence and slot-isolation relations",
    "150 000 (thorough 6 000 000) histories of up to 60 (thorough 300) update steps over up to 4 interleaved (layer, filter, bias) slots of rank 1-3, all five optimizers and option combinations, six gradient classes, four step-number patterns (offsets up to 5000), rarely 128 x 130 slots; "
    "each library step is compared with the documented equations (f64 model, tolerance scaled by an f32 shadow run), across ranks (<= 4 ulp) and against a solo run of the slot (bitwise). Sampling, no exhaustiveness.",
    "Reference state is kept by the harness (library state is private); a hyper-parameter of exactly 0 follows validate()'s substitution table; ill-conditioned centred-RMSprop steps only require finiteness.",
    "DESIGN.md 4/C03")
add("C06", "proptest over objective x clamp x rank x boundary-heavy contents; f64 formula oracle, numerical-derivative oracle, 3-D==flat and clamp metamorphic relations",
    "1 000 000 (thorough 100 000 000) generated prediction/target pairs per run over all 7 objectives with exact 0/1/eps boundary values, equal elements, 1-ulp-apart pairs, denormals, vectors up to 130 / tensors up to 4x6x6, one objective instance reused across lengths; loss and every gradient component compared with the documented formulas, "
    "gradient = derivative of the loss for AE/MSE/BCE/KL, clamped == clamp(unclamped) bitwise, 3-D == flat bitwise. Sampling.",
    "Within 2e-6 of 0 or 1 (the library's undocumented clamping zone) only finiteness is required; RMSE/MAE gradients follow their doc formulas.",
    "DESIGN.md 4/C06")
add("C07", "exhaustive enumeration of all 2^32 single-precision bit patterns (thorough) / prime-stride progression + boundary neighbourhoods (quick) against f64 definitions; proptest for soft-max with exact-shift metamorphic relation",
    "Thorough: every finite f32 bit pattern x 5 element-wise activations x forward/backward through the public tensor API, alternating flat and 3-D blocks (exhaustive for the element-wise clause). "
    "Quick: ~2.4 million patterns incl. 512 around every exponent boundary and the exp/cosh overflow points. Soft-max: sampled lengths 1..64, six input classes incl. +-3e38, shift invariance on exact grids.",
    "Tolerances: 4 ulp (forward) / 8 ulp (backward) of the f64 definition plus an absolute term (f32 min-normal where exp/cosh overflow flushes to 0, 1.8e-7 for sigmoid' cancellation); ReLU-family derivative at +-0 may be either one-sided value.",
    "DESIGN.md 4/C07")
add("C14", "proptest over shapes/targets/contents against an explicit row-major index model; round-trip and refusal oracles",
    "1 000 000 (thorough 100 000 000) generated (operation, source shape, target shape, contents) cases incl. size-1 axes, non-square shapes, unequal counts, reshape chains via vectors, one case in 40 with >= 16384 elements, contents incl. signed zeros, subnormals, infinities and NaN; element [c][h][w] compared bitwise with position c*H*W+h*W+w, recorded shape vs nested lengths, there-and-back identity, unequal counts must panic. Run twice: harness with debug assertions + overflow checks, and (different seed) a build without them.",
    "vector->vector reshape of another length is not required to be refused (the statement names vector<->3-D and 3-D<->3-D).",
    "DESIGN.md 4/C14")
add("C15", "proptest over operation x rank x shape x content classes against a scalar IEEE reference; shape-mismatch refusal oracle",
    "2 000 000 (thorough 200 000 000) generated cases over 12 operations, ranks 1-4 and nested lists, signed zeros / subnormals / mixed magnitudes, axes up to 300, matrices with both extents in 17..70, scalars one ulp from 0 / +-1 / powers of two; add/sub/mul/div/outer/transpose/clamp bitwise, Hadamard within 2 ulp of the exact product, mean and dot within a summation bound (means of up to four operands: a correctly rounded quotient of some single-precision sum); mismatched operands must panic. Run twice: harness with debug assertions + overflow checks, and (different seed) a build without them.",
    "dot() and product() are not required to refuse mismatched operands (the statement lists refusal for the in-place element-wise operations).",
    "DESIGN.md 4/C15")

add("C01", "proptest over generated architectures; oracle = numerical differentiation of an independent f64 reference network (P1) or of the library's own forward pass with Richardson extrapolation (P2); per-layer public backward() in isolation; one-step learn() differential",
    "60 000 (thorough 3 000 000) generated networks per run: depth 1-4 (6), all layer kinds incl. feedback blocks without skips in any fitting order, full kernel/stride/padding/dilation lattice, 7 objectives, soft-max+CE heads, exactly-zero tensors, dense widths up to 70, networks that were trained first, frozen output gradients down to 1e-12, single layers on 13-24 pixel maps and with saturated units (judged by component-wise error bounds); every parameter gradient (sampled above 300) and the input gradient of isolated layers compared with central differences; one SGD learn() step must equal -lr * gradient. Sampling within sizes <= 9x9x3.",
    "P1 trusts the harness's f64 reference operators (cross-checked against the library's forward pass at three parameter points per case, otherwise P2 is used); cases within 2e-3 of a ReLU kink / pooling tie are discarded and counted.",
    "DESIGN.md 4/C01")
add("C02", "proptest over the single-layer configuration lattice and layer sequences; oracle = f64 defining operators with a rounding-error bound, flat-vs-spatial metamorphic relation, fold of the library's own layer forwards",
    "300 000 (thorough 20 000 000) cases: single dense/convolution/deconvolution/max-pool layers over channels x height x width x filters x kernel x stride x padding x dilation incl. non-square and asymmetric settings, each fed c x h x w and flat; plus 2-5-layer sequences. Pre-activation within 4(n+1)eps*sum|terms| of the definition (max-pool exact), both representations bitwise equal, Network::forward/predict bitwise equal to the fold of single-layer forwards.",
    "Sequence outputs are compared with the f64 reference network at 2e-4 of the output scale and skipped when a kink/tie is within 1e-4.",
    "DESIGN.md 4/C02")
add("C04", "proptest over (network, optimizer, objective, N, B, E, data); oracle = replayed reference trainer built from public pieces",
    "40 000 (thorough 2 000 000) training runs incl. B = 1, B not dividing N, B > N, groups of 65-140 samples, 1-4 epochs, one or two learn() calls, all five optimizers, all seven objectives; learn()'s final weights and loss vector must equal ordered mini-batch gradient-sum descent replayed by the harness (bit-identical today, accepted within 1e-4 rel); a group step of plain SGD through a feedback block equals the sum of the single-sample steps; validation data never changes the weights; the replay also runs through feedback blocks (per-copy optimizer state, mean re-coupling) and through runs that never call set_optimizer (documented standard optimizer).",
    "The replay shares the per-sample gradient with the library on purpose (C01 owns it); feedback blocks and dropout are excluded here (C10 / C09).",
    "DESIGN.md 4/C04")
add("C05", "metamorphic schedule exploration: dedicated rayon pools with 1..48 threads x injected delay plans x repetitions, fresh network per run; bitwise comparison with the 1-thread run",
    "100 (thorough 2 000) generated networks with every layer kind, dropout, feedback blocks with skips, skip connections with shared sources, x 6 (11) schedules each (one case in five evaluates 1e-39-scaled inputs on a bias-free network so that a floating-point mode left on worker threads shows); training with validation, validate() and predict_batch() over > 64 inputs must be bit-identical to the 1-thread run of a freshly built identical network. Every third schedule lets the pool serve a decoy network first; loop connections over dense layers with dropout occur; one case in six puts a NaN into one evaluation input. Explores schedule classes, not interleavings.",
    "rayon's scheduler is not owned: thread counts, repetitions and delays at the per-sample hooks are varied; decides the realistic mechanisms (order-dependent float reduction, unordered collection, per-instance hash order), cannot exclude a dependence needing one particular interleaving.",
    "DESIGN.md 4/C05")
add("C08", "proptest over raw layer-request sequences next to an independent shape model; Display-text announcement parsing; identity-network round trip across flat<->spatial transitions",
    "500 000 (thorough 40 000 000) request sequences (valid and invalid, one request in five a feedback block built to fit, dense widths incl. non-squares, paddings up to kernel+1, 1-pixel inputs): model-valid requests must be accepted and announced as the standard formulas say, non-square flat widths must be rejected in front of spatial layers, forward produces the announced shapes, gradient shapes equal parameter shapes; identity networks (spatial inputs also given flat) reproduce the row-major sequence bitwise.",
    "Requests whose effective kernel does not fit are outside the property and are not submitted.",
    "DESIGN.md 4/C08")
add("C09", "differential testing against a dropout-free twin network over generated architectures, dropout patterns and epoch counts",
    "40 000 (thorough 2 000 000) generated networks with dropout on any subset of layers incl. inside feedback blocks, 1-3 epochs, early-stopping tolerances 1-3 and up to 150 validation samples: after every e epochs predict, validate and the validation metrics reported by learn() itself must equal, bitwise, those of the twin without dropout holding the same weights; predict is compared again after a stand-alone validate().",
    "Dropout masks are deterministic (the library seeds them with 12345), which is what makes the per-epoch differential exact.",
    "DESIGN.md 4/C09")
add("C10", "stateful history generation: block creation + optimizer + 1-4 learn() calls; invariant = all unrolled copies bit-identical, announced parameter count = model count",
    "60 000 (thorough 4 000 000) histories over dense and kernel blocks, loops 1-4, four coupling accumulations, five optimizers, learning rates down to 1e-5, all-zero samples, validation with early stopping; the tie invariant is asserted after creation and after every call. Loudly refused couplings (kernel blocks with subtract/multiply) and NaN-diverged runs are counted, not asserted.",
    "Blocks with internal skips are generated in 1/4 of the cases; when their backward pass aborts on a shape assertion (a library limitation outside the listed properties) the case is discarded and counted.",
    "DESIGN.md 4/C10")
add("C11", "proptest over block specifications; oracle = statement-derived model composed from the library's own single-layer forwards, accumulations computed element-wise by the harness",
    "400 000 (thorough 30 000 000) blocks: flat and spatial, loops 1-4, four skip-flag combinations, five accumulations (set at creation or later through set_accumulation), with and without a following dense layer; widths up to 2100 and blocks containing a max-pool occur; predict within 2 ulp (bit-identical today) of the repeated, skip-combined sequence.",
    "The model trusts the single-layer forwards (C02).",
    "DESIGN.md 4/C11")
add("C12", "proptest over (network, objective, tolerance, N) with targets derived from the predictions; oracle recomputed from public pieces with interval semantics at the tolerance edge",
    "20 000 (thorough 1 000 000) cases with N in {1, 2, 63, 64, 65, 127, 128, 129, 200} or random <= 300, optional skip connections, output activation optionally changed with set_activation: validate loss = mean objective of predict within the summation bound, accuracy inside the interval allowed by the stated rule, predict_batch[i] == predict(x_i) bitwise and in order, predict == last activation of forward; soft target distributions, fine input sweeps, up to 130 outputs, a second validate call with fewer samples on the same network, and spatial samples handed over flat; run inside 3-thread rayon pools.",
    "Components at exactly the tolerance and arg-max ties may count either way.",
    "DESIGN.md 4/C12")
add("C13", "history-invariant checking over generated exact loss trajectories (dyadic linear model), incl. plateaus with bit-equal losses",
    "300 000 (thorough 20 000 000) training set-ups producing falling / rising / fall-then-rise / oscillating / plateau trajectories, tolerance 1-6, budget 1-14, with and without validation data, print settings, one-ulp-per-epoch trajectories; history lengths, never-continues-past and stops-only-if conditions, and weight equality with a validation-free run of exactly n epochs; one case in six follows an earlier learn() call on the same network object; one in eight uses the KL-divergence (negative losses).",
    "The stopping window is read as: the last `tolerance` recorded losses form a strictly increasing sequence.",
    "DESIGN.md 4/C13")
add("C16", "proptest over networks + connect() call sequences + accumulations; acceptance model, hand-composed forward model, and the C01 derivative oracle with skip connections in the f64 reference network",
    "200 000 (thorough 10 000 000) cases incl. a = b, a = 0, repeated targets, shared sources, chains and flat<->spatial crossings; earlier connections must survive, distinct pairs must be accepted, predict must equal the composed model (<= 2 ulp), and with additive accumulation every parameter gradient must equal the numerical derivative (also for connections added after training); calls with swapped indices may be refused but must not remove an earlier connection.",
    "When a source is itself a target both readings of 'the input fed to layer a' are accepted in the forward model; max-pool sources are refused by the library and not generated.",
    "DESIGN.md 4/C16")
add("C17", "proptest over loop configurations; oracle = statement-derived model from the library's own layer forwards; metamorphic twin (range repeated k+1 times) for overwrite",
    "400 000 (thorough 30 000 000) networks with a looped range (dense, spatial, conv+pool, deconv+pool), prefix / suffix layers incl. a flattening dense layer, k 1-3 (rarely up to 24), five accumulations (loop and skip accumulations drawn independently), input skips on/off; prediction within 2 ulp (bit-identical today) of the accumulated repeated sub-network, and equal to the unrolled twin for overwrite; two disjoint loops, ranges starting at a max-pool, and (predict == forward only) overlapping / nested loops occur.",
    "One loop connection per network; loops over feedback blocks are refused by the library and not generated.",
    "DESIGN.md 4/C17")
