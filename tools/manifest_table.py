# Table consumed by tools/mkmanifest.py
NOTES = ("Technique family: property-based testing / fuzzing (generated-input search against explicit oracles). "
         "./check <ID> quick|thorough; VERIF_SEED selects the PRNG seed; exit 0 held / 1 VIOLATION / 2 inconclusive. "
         "known_findings.json lists recorded/fixed genuine defects; replays/regress holds shrunk regression replays run first in every tier.")
NOT_APPLICABLE = {}

add("C18", "exhaustive state enumeration + proptest over seeds/lengths/intervals; range and permutation oracles",
    "Thorough tier enumerates all 2^31-2 generator states for generate() on 8 intervals and for the shuffle index on 7 lengths (exhaustive for those), "
    "quick enumerates both ends of the state space plus a seed-offset progression; seeds up to u64::MAX, interval classes, shuffle lengths/duplicates and Tensor::random shapes are sampled with proptest. "
    "Exploration level: no claim beyond the enumerated/sampled domain.",
    "Trusts the harness's modular-inverse computation of the seed that leads to a given state; Tensor::random is clock-seeded so only seed-independent assertions are made.",
    "DESIGN.md 4/C18")

add("C03", "stateful history generation (proptest tapes) against an f64 reference model of the documented update equations; metamorphic rank-independence and slot-isolation relations",
    "Histories of up to 60 (thorough 300) update steps over up to 4 interleaved (layer, filter, bias) slots of rank 1-3, all five optimizers and option combinations, six gradient classes, four step-number patterns; "
    "each library step is compared with the documented equations (f64 model, tolerance scaled by an f32 shadow run), across ranks (<= 4 ulp) and against a solo run of the slot (bitwise). Sampling, no exhaustiveness.",
    "Reference state is kept by the harness (library state is private); a hyper-parameter of exactly 0 follows validate()'s substitution table; ill-conditioned centred-RMSprop steps only require finiteness.",
    "DESIGN.md 4/C03")
add("C06", "proptest over objective x clamp x rank x boundary-heavy contents; f64 formula oracle, numerical-derivative oracle, 3-D==flat and clamp metamorphic relations",
    "60 000 (thorough 3 000 000) generated prediction/target pairs per run over all 7 objectives with exact 0/1/eps boundary values, equal elements, 1-ulp-apart pairs, denormals; loss and every gradient component compared with the documented formulas, "
    "gradient = derivative of the loss for AE/MSE/BCE/KL, clamped == clamp(unclamped) bitwise, 3-D == flat bitwise. Sampling.",
    "Within 2e-6 of 0 or 1 (the library's undocumented clamping zone) only finiteness is required; RMSE/MAE gradients follow their doc formulas.",
    "DESIGN.md 4/C06")
add("C07", "exhaustive enumeration of all 2^32 single-precision bit patterns (thorough) / prime-stride progression + boundary neighbourhoods (quick) against f64 definitions; proptest for soft-max with exact-shift metamorphic relation",
    "Thorough: every finite f32 bit pattern x 5 element-wise activations x forward/backward through the public tensor API, alternating flat and 3-D blocks (exhaustive for the element-wise clause). "
    "Quick: ~2.4 million patterns incl. 512 around every exponent boundary and the exp/cosh overflow points. Soft-max: sampled lengths 1..64, six input classes incl. +-3e38, shift invariance on exact grids.",
    "Tolerances: 4 ulp (forward) / 8 ulp (backward) of the f64 definition plus an absolute term (f32 min-normal where exp/cosh overflow flushes to 0, 1.8e-7 for sigmoid' cancellation); ReLU-family derivative at +-0 may be either one-sided value.",
    "DESIGN.md 4/C07")
add("C14", "proptest over shapes/targets/contents against an explicit row-major index model; round-trip and refusal oracles",
    "60 000 (thorough 5 000 000) generated (operation, source shape, target shape, contents) cases incl. size-1 axes, non-square shapes, unequal counts, reshape chains via vectors; element [c][h][w] compared bitwise with position c*H*W+h*W+w, recorded shape vs nested lengths, there-and-back identity, unequal counts must panic.",
    "vector->vector reshape of another length is not required to be refused (the statement names vector<->3-D and 3-D<->3-D).",
    "DESIGN.md 4/C14")
add("C15", "proptest over operation x rank x shape x content classes against a scalar IEEE reference; shape-mismatch refusal oracle",
    "80 000 (thorough 6 000 000) generated cases over 12 operations, ranks 1-4 and nested lists, signed zeros / subnormals / mixed magnitudes; add/sub/mul/div/outer/transpose/clamp bitwise, Hadamard within 2 ulp of the exact product, mean and dot within a summation bound; mismatched operands must panic.",
    "dot() and product() are not required to refuse mismatched operands (the statement lists refusal for the in-place element-wise operations).",
    "DESIGN.md 4/C15")
