#!/bin/bash
# Recreates the hand-written mutants (DESIGN.md section 4 "Kills" lists) as patches against /repo HEAD.
set -e
M=/verif/tools/mkmut.py
cd /verif
# C01
$M C01_conv_backward_dilation_index src/convolution.rs "let x = match (w * self.stride.1 + j * self.dilation.1)" "let x = match (w * self.stride.1 + j * self.dilation.0)"
$M C01_dense_bias_gradient_without_activation_derivative src/dense.rs "Some(_) => Some(delta.clone())," "Some(_) => Some(gradient.clone()),"
$M C01_deconv_backward_kernel_gradient_transposed src/deconvolution.rs "kgradient[f][c][i][j] += delta[f][oi][oj] * input[c][h][w];" "kgradient[f][c][j.min(kh - 1)][i.min(kw - 1)] += delta[f][oi][oj] * input[c][h][w];"
$M C01_maxpool_gradient_to_window_origin src/maxpool.rs "index = (_dh, _dw);" "index = (h, w);"
$M C01_conv_backward_input_gradient_drops_last_filter src/convolution.rs "igradient[c][y][x] += delta[f][h][w] * kernels[f][c][i][j];" "if f == 0 || f + 1 < kf { igradient[c][y][x] += delta[f][h][w] * kernels[f][c][i][j]; }"
# C02
$M C02_conv_forward_width_uses_height_dilation src/convolution.rs "let _w = width * self.stride.1 + w * self.dilation.1;" "let _w = width * self.stride.1 + w * self.dilation.0;"
$M C02_deconv_forward_crop_uses_height_padding src/deconvolution.rs "let oj = match oj.checked_sub(self.padding.1) {" "let oj = match oj.checked_sub(self.padding.0) {" 0
$M C02_pad3d_width_offset_from_height src/tensor.rs "(into.1 - data[0][0].len()) / 2" "(into.0 - data[0].len()) / 2"
$M C02_maxpool_step_swapped src/maxpool.rs "for w in (0..iw - self.kernel.1 + 1).step_by(self.stride.1) {" "for w in (0..iw - self.kernel.1 + 1).step_by(self.stride.0) {"
# C04
$M C04_step_number_always_one src/network.rs "self.update(epoch, weight_gradients, bias_gradients);" "self.update(1, weight_gradients, bias_gradients);"
$M C04_first_gradient_tensor_not_summed src/network.rs "for (gradient, new) in weight_gradients.iter_mut().zip(wg.iter()) {" "for (gradient, new) in weight_gradients.iter_mut().zip(wg.iter()).skip(1) {"
$M C04_epoch_loss_divided_by_samples src/network.rs "train_loss.push(loss_epoch / batches.len() as f32);" "train_loss.push(loss_epoch / (inputs.len() as f32 / batch as f32).max(1.0));"
$M C04_batches_reversed src/network.rs "for batch in batches.iter() {" "for batch in batches.iter().rev() {"
# C06
$M C06_mse_3d_not_divided src/objective.rs ".map(|(actual, predicted)| -2.0 * (actual - predicted) / length)
                                    .collect::<Vec<f32>>()" ".map(|(actual, predicted)| -2.0 * (actual - predicted))
                                    .collect::<Vec<f32>>()"
$M C06_bce_gradient_unclamped_denominator src/objective.rs "                        let predicted = predicted.clamp(eps, 1.0 - eps);
                        (predicted - actual) / (predicted * (1.0 - predicted))" "                        (predicted.clamp(eps, 1.0 - eps) - actual) / (predicted * (1.0 - predicted))"
$M C06_kl_clamp_applied_to_loss src/objective.rs "            Some((min, max)) => (loss, gradient.clamp(min, max)),
            None => (loss, gradient),
        }
    }
}

#[cfg(test)]" "            Some((min, max)) => (loss.clamp(min, max), gradient.clamp(min, max)),
            None => (loss, gradient),
        }
    }
}

#[cfg(test)]"
$M C06_rmse_vector_gradient_sign src/objective.rs "                            -(actual - predicted)
                                / ((actual - predicted).powi(2).sqrt() * length) as f32
                        }
                    })
                    .collect::<Vec<f32>>();
                tensor::Tensor::single(gradients)" "                            (actual - predicted).abs()
                                / ((actual - predicted).powi(2).sqrt() * length) as f32
                        }
                    })
                    .collect::<Vec<f32>>();
                tensor::Tensor::single(gradients)"
# C07
$M C07_tanh_backward_3d_no_square src/activation.rs "row_result.extend(row.iter().map(|&v| 1.0 / v.cosh().powi(2)));" "row_result.extend(row.iter().map(|&v| 1.0 / v.cosh().powi(1)));"
$M C07_sigmoid_backward_overflow_formulation src/activation.rs "                result.extend(data.iter().map(|&v| {
                    let y = 1.0 / (1.0 + f32::exp(-v));
                    y * (1.0 - y)
                }));" "                result.extend(data.iter().map(|&v| {
                    let e = f32::exp(-v);
                    e / ((1.0 + e) * (1.0 + e))
                }));"
$M C07_relu_backward_ge src/activation.rs "result.extend(data.iter().map(|&v| if v > 0.0 { 1.0 } else { 0.0 }));" "result.extend(data.iter().map(|&v| if v >= -1e-30 { 1.0 } else { 0.0 }));"
$M C07_softmax_without_max_subtraction src/activation.rs "let exp = (v - max).exp();" "let exp = (v - max.min(80.0)).exp();"
# C08
$M C08_deconv_announced_width_uses_height_stride src/deconvolution.rs "let width = (input.2 - 1) * stride.1 + kernel.1 - 2 * padding.1;" "let width = (input.2 - 1) * stride.0 + kernel.1 - 2 * padding.1;"
$M C08_maxpool_announced_width_uses_height_kernel src/maxpool.rs "let width = (input.2 - kernel.1) / stride.1 + 1;" "let width = (input.2 - kernel.0) / stride.1 + 1;"
$M C08_feedback_not_flattened_before_dense src/network.rs "                tensor::Shape::Triple(ch, he, wi) => {
                    layer.flatten = true;
                    tensor::Shape::Single(ch * he * wi)" "                tensor::Shape::Triple(ch, he, wi) => {
                    layer.flatten = ch == 1;
                    tensor::Shape::Single(ch * he * wi)"
# C09
$M C09_feedback_flags_not_cleared_after_learn src/network.rs "                Layer::Feedback(feedback) => feedback.training(false),
                _ => (),
            }
        }

        (train_loss, val_loss, val_acc)" "                Layer::Feedback(_) => (),
                _ => (),
            }
        }

        (train_loss, val_loss, val_acc)"
$M C09_deconv_dropout_mode_inverted_when_flattened src/deconvolution.rs "        if self.training {
            if let Some(dropout) = self.dropout {
                post.dropout(dropout);
            }
        }" "        if self.training != self.flatten {
            if let Some(dropout) = self.dropout {
                post.dropout(dropout);
            }
        }"
$M C09_validate_restores_training_when_standalone src/network.rs "        if training {
            for layer in &mut self.layers {
                match layer {
                    Layer::Dense(layer) => layer.training = true," "        if training || inputs.len() == 1 {
            for layer in &mut self.layers {
                match layer {
                    Layer::Dense(layer) => layer.training = true,"
# C10
$M C10_bias_not_recoupled src/feedback.rs "                        if let Some(b) = &mut layer.bias {
                            *b = bias.clone().unwrap();
                        }" "                        if let (Some(b), true) = (&mut layer.bias, couple.len() < 3) {
                            *b = bias.clone().unwrap();
                        }"
$M C10_mean_divides_by_count_minus_one_for_kernels src/feedback.rs "                    weight.div_scalar_inplace(count);" "                    weight.div_scalar_inplace(if matches!(weight.data, tensor::Data::Nested(_)) && count > 2.0 { count - 1.0 } else { count });"
$M C10_parameters_counts_all_repetitions_of_kernels src/feedback.rs "                network::Layer::Convolution(convolution) => convolution.parameters()," "                network::Layer::Convolution(convolution) => convolution.parameters() * (self.layers.len() / self.coupled.len()),"
# C11
$M C11_outskips_include_block_input src/feedback.rs "                if outskips {
                    outputs.push(i * length);
                }" "                if outskips {
                    outputs.push((i - 1) * length);
                }"
$M C11_subtract_output_combination_adds src/feedback.rs "                Accumulation::Subtract => {
                    for idx in self.connect.get(&i).unwrap() {
                        last.sub_inplace(&activated[*idx]);" "                Accumulation::Subtract => {
                    for idx in self.connect.get(&i).unwrap() {
                        last.add_inplace(&activated[*idx]);"
$M C11_inskips_only_first_two_repetitions src/feedback.rs "                if inskips {
                    // {to: from}
                    connect.insert(i * length, vec![0]);" "                if inskips && i < 3 {
                    // {to: from}
                    connect.insert(i * length, vec![0]);"
# C12
$M C12_tolerance_inclusive src/network.rs "                                                    if (t - p).abs() < tol {" "                                                    if (t - p).abs() <= tol * 1.5 {"
$M C12_predict_batch_drops_tail_chunk_duplicate src/network.rs "            .par_chunks(_CHUNKS)
            .flat_map(|batch| {
                batch
                    .iter()
                    .map(|input| self.predict(input))" "            .par_chunks(_CHUNKS)
            .flat_map(|batch| {
                batch
                    .iter()
                    .rev()
                    .map(|input| self.predict(input))"
# C13
$M C13_epoch_ge_threshold src/network.rs "if epoch > threshold {" "if epoch >= threshold {"
$M C13_plateau_counts_as_rising src/network.rs "if history[i] <= history[i + 1] {" "if history[i] < history[i + 1] {"
$M C13_accuracy_not_pushed_on_first_epoch src/network.rs "                val_acc.push(_val_acc);" "                if epoch > 1 || epochs < 13 { val_acc.push(_val_acc); }"
# C14
$M C14_reshape_triple_assert_weakened src/tensor.rs "                assert_eq!(
                    channels * rows * columns,
                    new_channels * new_rows * new_columns,
                    \"Reshape requires the same number of elements\"
                );" "                assert!(
                    channels * rows * columns >= new_channels * new_rows * new_columns,
                    \"Reshape requires the same number of elements\"
                );"
$M C14_get_triple_height_width_swapped src/tensor.rs "                (0..oc)
                    .map(|_| {
                        (0..oh)
                            .map(|_| (0..ow).map(|_| *iter.next().unwrap()).collect())
                            .collect()
                    })
                    .collect()" "                let cols: Vec<Vec<Vec<f32>>> = (0..oc)
                    .map(|_| {
                        (0..ow)
                            .map(|_| (0..oh).map(|_| *iter.next().unwrap()).collect())
                            .collect()
                    })
                    .collect();
                (0..oc).map(|c| (0..oh).map(|h| (0..ow).map(|w| if oh == ow { cols[c][h][w] } else { cols[c][w][h] }).collect()).collect()).collect()"
$M C14_flatten_shape_from_capacity src/tensor.rs "                Tensor {
                    shape: Shape::Single(flattened.len()),
                    data: Data::Single(flattened),
                }" "                Tensor {
                    shape: Shape::Single(data.len() * data[0].len() * data[0].len().max(data[0][0].len())),
                    data: Data::Single(flattened),
                }"
# C15
$M C15_mean_divides_by_k_in_4d src/tensor.rs "                                    .sum::<f32>();
                                *val = (*val + sum) / n;
                            }
                        }
                    }
                }
            }
            _ => panic!(\"Invalid mean.\")," "                                    .sum::<f32>();
                                *val = (*val + sum) / (n - 1.0).max(1.0);
                            }
                        }
                    }
                }
            }
            _ => panic!(\"Invalid mean.\"),"
$M C15_clamp_3d_bounds_swapped src/tensor.rs "                    c.iter_mut().for_each(|r| {
                        r.iter_mut().for_each(|x| *x = x.clamp(min, max));
                    });
                });
            }
            Data::Quadruple" "                    c.iter_mut().for_each(|r| {
                        r.iter_mut().for_each(|x| *x = x.max(min).min(max.abs()));
                    });
                });
            }
            Data::Quadruple"
$M C15_hadamard_missing_shape_check src/tensor.rs "    pub fn hadamard(&mut self, other: &Tensor, scalar: f32) {
        assert_eq_shape!(self.shape, other.shape);" "    pub fn hadamard(&mut self, other: &Tensor, scalar: f32) {"
# C16
$M C16_overwrite_keeps_ordinary_input_when_shapes_equal src/network.rs "                feedback::Accumulation::Overwrite => {
                    x = _x;
                }" "                feedback::Accumulation::Overwrite => {
                    if _x.shape != self.input { x = _x; }
                }"
$M C16_skip_gradient_only_first_target src/network.rs "                for to in targets.iter() {
                    let gradient2 = received[to].clone();" "                for to in targets.iter().take(1) {
                    let gradient2 = received[to].clone();"
$M C16_mean_skip_divides_by_three src/network.rs "                feedback::Accumulation::Mean => {
                    x.mean_inplace(&vec![&_x]);
                }
                #[allow(unreachable_patterns)]
                _ => unimplemented!(\"Accumulation method not implemented.\"),
            }
        }

        x" "                feedback::Accumulation::Mean => {
                    x.add_inplace(&_x);
                    x.div_scalar_inplace(if i > 2 { 3.0 } else { 2.0 });
                }
                #[allow(unreachable_patterns)]
                _ => unimplemented!(\"Accumulation method not implemented.\"),
            }
        }

        x"
# C17
$M C17_one_iteration_too_few_for_k_ge_2 src/network.rs "                for _ in 0..iterations {
                    let mut current: tensor::Tensor =" "                for _ in 0..(if iterations > 1 { iterations - 1 } else { iterations }) {
                    let mut current: tensor::Tensor ="
$M C17_subtract_accumulates_activated_with_add src/network.rs "                                preactivated[j].sub_inplace(&fpres[iteration][idx]);
                                activated[j + 1].sub_inplace(&fposts[iteration][idx]);" "                                preactivated[j].sub_inplace(&fpres[iteration][idx]);
                                activated[j + 1].add_inplace(&fposts[iteration][idx]);"
$M C17_inskip_added_only_on_first_iteration src/network.rs "                    if inskips {
                        // The looped output" "                    if inskips && fpres.is_empty() {
                        // The looped output"
echo "mutants: $(ls /verif/mutants/*.diff | wc -l)"
