#!/usr/bin/env python3
"""Writes `checked_with` / `history` into seeded/<id>/meta.json from seeded/RESULTS.md and the first-pass files
(seeded/ROUND3_FIRST_PASS.md, seeded/ROUND4_FIRST_PASS.md). Run after tools/run_mutants.py --seeded."""
import json, os, re
V = '/verif/seeded'

def table(path, cols):
    rows = {}
    if not os.path.exists(path):
        return rows
    for l in open(path):
        c = [x.strip() for x in l.split('|')]
        if len(c) > cols and re.match(r'C\d\d_\d+$', c[1]):
            rows[c[1]] = c
    return rows

res = table(f'{V}/RESULTS.md', 6)
first = {}
for f in ('ROUND3_FIRST_PASS.md', 'ROUND4_FIRST_PASS.md', 'ROUND5_FIRST_PASS.md', 'ROUND6_FIRST_PASS.md', 'ROUND7_FIRST_PASS.md', 'ROUND8_FIRST_PASS.md'):
    for k, c in table(f'{V}/{f}', 3).items():
        first[k] = 'SURVIVED' if 'SURVIVED' in c else 'killed'
NOT_INDEPENDENT = {'C10_5', 'C10_6'}
ALSO = {'C03_8': ['C04'], 'C04_9': ['C03'], 'C04_14': ['C03'], 'C02_15': ['C12'], 'C03_16': ['C04'], 'C04_16': ['C03'], 'C11_15': ['C10'], 'C12_16': ['C06']}
OUTSIDE = {'C07_15': "ReLU has no derivative at 0; C07 accepts either one-sided value there (manifest assumption 'ReLU-family derivative at +-0 may be either one-sided value'). The change returns 1 instead of 0 at an exact +0.0 in the last length mod 4 positions of a flat vector: both are admissible, and the statement does not require the choice to be the same in every position or rank. Kept for the record; no check is expected to detect it.",
           'C15_15': "The change re-associates the sum inside the mean ((o1+o2)+(o3+o4) instead of ((o1+o2)+o3)+o4). The statement requires 'the element-wise IEEE single-precision result' of the mean over k tensors, which for k >= 3 is not a single value: every order and bracketing of the additions is an IEEE evaluation of the same mean. C15 pins the division (correctly rounded quotient of some single-precision sum of the operands) and deliberately not the order of additions (appendix F). Kept for the record; no check is expected to detect it.",
           'C07_9': "C07 states nothing about the soft-max backward (only forward: non-negative, sums to one, shift-invariant, finite); the unchanged Softmax::backward is not a derivative either (it returns the constant (n-2) * sum p^2 in every component) and Dense does not call it. The change is kept for the record; no check is expected to detect it."}
for d in sorted(os.listdir(V)):
    mp = f'{V}/{d}/meta.json'
    if not os.path.exists(mp):
        continue
    m = json.load(open(mp))
    if d in ALSO:
        m['also_checked_by'] = ALSO[d]
    if d in OUTSIDE:
        m['outside_property'] = OUTSIDE[d]
    if d in res:
        c = res[d]
        by = c[5].split('/')
        m['checked_with'] = {
            'command': 'VERIF_SEED=<0,1,2> ./check <owning property> quick (both build profiles; patch applied with git apply to /repo, or for rounds run through tools/par_seeded.py to a clone of /repo HEAD that a copy of /verif builds against, reverted afterwards)',
            'result': c[4], 'killed_by_and_seed': c[5], 'seconds_incl_rebuild': c[6], 'first_detail': c[7][:160],
        }
    if d in first:
        m['history'] = ('detected by the owning check as it stood when the change arrived' if first[d] == 'killed'
                        else 'missed by the checks as they stood when the change arrived; detected after the generator / oracle widening described in DESIGN.md (appendix %s)' % {'5': 'C', '6': 'C', '7': 'D', '8': 'D', '9': 'E', '10': 'E', '11': 'F', '12': 'F', '13': 'G', '14': 'G'}.get(d.split('_')[1], 'H'))
    if d in NOT_INDEPENDENT:
        m['independence'] = 'the sub-agent that wrote this change reported having read /verif/harness/src/c10.rs: NOT independent of the check'
    json.dump(m, open(mp, 'w'), indent=1)
print('annotated', len(res), 'metas;', len(first), 'with first-pass history')
