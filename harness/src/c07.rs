//! C07 — activations: defined function, exact derivative, total on finite floats.

use crate::engine::*;
use crate::fcmp::ulp_of;
use crate::tape::{enc_pick, Mix, Tape};
use crate::tens;
use crate::ensure;
use neurons::activation::{Activation, Function};
use neurons::tensor::Tensor;
use rayon::prelude::*;
use serde_json::{json, Value};
use std::sync::atomic::{AtomicU64, Ordering};
use std::sync::Mutex;

#[derive(Debug, Clone, Copy, PartialEq, Eq, Hash)]
pub enum Act {
    ReLU,
    Leaky,
    Sigmoid,
    Tanh,
    Linear,
}
pub const ACTS: [Act; 5] = [Act::ReLU, Act::Leaky, Act::Sigmoid, Act::Tanh, Act::Linear];

pub fn make(a: Act) -> Function {
    Function::create(&match a {
        Act::ReLU => Activation::ReLU,
        Act::Leaky => Activation::LeakyReLU,
        Act::Sigmoid => Activation::Sigmoid,
        Act::Tanh => Activation::Tanh,
        Act::Linear => Activation::Linear,
    })
}

const MIN_NORMAL: f64 = 1.1754943508222875e-38;

/// Check one (function, direction, input, output) point. Returns error/tolerance ratio.
pub fn check_point(a: Act, backward: bool, x: f32, y: f32) -> Result<f64, String> {
    if !y.is_finite() {
        return Err(format!("{:?} {} at x={:e} (bits {:08x}) returned non-finite {:?}", a, if backward { "backward" } else { "forward" }, x, x.to_bits(), y));
    }
    let xd = x as f64;
    let yd = y as f64;
    // (reference, relative tolerance in ulps of the reference, absolute tolerance)
    let (r, rel_ulps, abs): (f64, f64, f64) = match (a, backward) {
        (Act::ReLU, false) => {
            if x > 0.0 {
                if y.to_bits() != x.to_bits() {
                    return Err(format!("ReLU forward({:e}) = {:e}, expected the input itself", x, y));
                }
                return Ok(0.0);
            } else {
                if y != 0.0 {
                    return Err(format!("ReLU forward({:e}) = {:e}, expected 0", x, y));
                }
                return Ok(0.0);
            }
        }
        (Act::ReLU, true) => {
            let ok = if x > 0.0 { y == 1.0 } else if x < 0.0 { y == 0.0 } else { y == 0.0 || y == 1.0 };
            if !ok {
                return Err(format!("ReLU backward({:e}) = {:e}", x, y));
            }
            return Ok(0.0);
        }
        (Act::Leaky, false) => {
            if x > 0.0 {
                if y.to_bits() != x.to_bits() {
                    return Err(format!("LeakyReLU forward({:e}) = {:e}, expected the input itself", x, y));
                }
                return Ok(0.0);
            }
            (0.01 * xd, 4.0, 3e-45)
        }
        (Act::Leaky, true) => {
            let ok = if x > 0.0 {
                y == 1.0
            } else if x < 0.0 {
                (yd - 0.01).abs() <= 1e-9
            } else {
                y == 1.0 || (yd - 0.01).abs() <= 1e-9
            };
            if !ok {
                return Err(format!("LeakyReLU backward({:e}) = {:e} (slope must be 0.01)", x, y));
            }
            return Ok(0.0);
        }
        (Act::Sigmoid, false) => {
            if !(0.0..=1.0).contains(&y) {
                return Err(format!("sigmoid forward({:e}) = {:e} outside [0,1]", x, y));
            }
            (1.0 / (1.0 + (-xd).exp()), 4.0, MIN_NORMAL)
        }
        (Act::Sigmoid, true) => {
            let s = 1.0 / (1.0 + (-xd).exp());
            // y(1-y) evaluated from a single-precision y: absolute error of ~1 ulp(1) where 1-y cancels
            (s * (1.0 - s), 8.0, 1.8e-7)
        }
        (Act::Tanh, false) => {
            if !(-1.0..=1.0).contains(&y) {
                return Err(format!("tanh forward({:e}) = {:e} outside [-1,1]", x, y));
            }
            (xd.tanh(), 4.0, 3e-45)
        }
        (Act::Tanh, true) => {
            let c = xd.cosh();
            (1.0 / (c * c), 8.0, MIN_NORMAL)
        }
        (Act::Linear, false) => {
            if y.to_bits() != x.to_bits() {
                return Err(format!("identity forward({:e}) = {:e}", x, y));
            }
            return Ok(0.0);
        }
        (Act::Linear, true) => {
            if y != 1.0 {
                return Err(format!("identity backward({:e}) = {:e}, expected 1", x, y));
            }
            return Ok(0.0);
        }
    };
    let tol = rel_ulps * ulp_of(r as f32).min(r.abs() * 2.4e-7 + 1e-45).max(0.0) + abs;
    let err = (yd - r).abs();
    if err > tol {
        return Err(format!(
            "{:?} {} at x={:e} (bits {:08x}): library {:e}, definition {:e}, error {:e} > tolerance {:e}",
            a, if backward { "backward" } else { "forward" }, x, x.to_bits(), y, r, err, tol
        ));
    }
    Ok(err / tol)
}

/// Apply the library activation to a block of inputs arranged flat or as c x h x w.
fn apply(f: &Function, backward: bool, xs: &[f32], dims3: Option<(usize, usize, usize)>) -> Result<Vec<f32>, String> {
    let input = match dims3 {
        None => Tensor::single(xs.to_vec()),
        Some((c, h, w)) => tens::triple(c, h, w, xs),
    };
    let out = catch(|| if backward { f.backward(&input) } else { f.forward(&input) })?;
    if out.shape != input.shape {
        return Err(format!("output shape {:?} != input shape {:?}", out.shape, input.shape));
    }
    if !tens::consistent(&out) {
        return Err(format!("output shape {:?} inconsistent with its data", out.shape));
    }
    let v = tens::flat(&out);
    if v.len() != xs.len() {
        return Err(format!("output has {} elements, input {}", v.len(), xs.len()));
    }
    Ok(v)
}

struct EnumStats {
    points: AtomicU64,
    failures: AtomicU64,
    first: Mutex<Option<(u32, usize, bool, bool, String)>>, // bits, act idx, backward, 3d, msg
    worst: Mutex<Vec<f64>>,
}

fn run_block(bits: &[u32], block_no: u64, st: &EnumStats) {
    let xs: Vec<f32> = bits.iter().map(|b| f32::from_bits(*b)).filter(|x| x.is_finite()).collect();
    if xs.is_empty() {
        return;
    }
    // alternate flat / 3-D blocks; 3-D needs a factorisation of the block length
    let n = xs.len();
    let use3d = block_no % 2 == 1;
    let dims3 = if use3d {
        let w = if n % 32 == 0 { 32 } else if n % 8 == 0 { 8 } else { 1 };
        let rest = n / w;
        let h = if rest % 16 == 0 { 16 } else if rest % 4 == 0 { 4 } else { 1 };
        Some((rest / h, h, w))
    } else {
        None
    };
    let mut worst = vec![0.0f64; 10];
    for (ai, a) in ACTS.iter().enumerate() {
        let f = make(*a);
        for backward in [false, true] {
            let res = apply(&f, backward, &xs, dims3);
            match res {
                Err(msg) => {
                    st.failures.fetch_add(1, Ordering::Relaxed);
                    let mut fb = st.first.lock().unwrap();
                    if fb.is_none() {
                        *fb = Some((xs[0].to_bits(), ai, backward, use3d, format!("{:?} {}: {}", a, if backward { "backward" } else { "forward" }, msg)));
                    }
                }
                Ok(ys) => {
                    for (x, y) in xs.iter().zip(ys.iter()) {
                        match check_point(*a, backward, *x, *y) {
                            Ok(r) => {
                                let slot = &mut worst[ai * 2 + backward as usize];
                                if r > *slot {
                                    *slot = r;
                                }
                            }
                            Err(msg) => {
                                st.failures.fetch_add(1, Ordering::Relaxed);
                                let mut fb = st.first.lock().unwrap();
                                if fb.is_none() {
                                    *fb = Some((x.to_bits(), ai, backward, use3d, msg));
                                }
                            }
                        }
                    }
                }
            }
        }
    }
    st.points.fetch_add(n as u64, Ordering::Relaxed);
    let mut w = st.worst.lock().unwrap();
    for i in 0..10 {
        if worst[i] > w[i] {
            w[i] = worst[i];
        }
    }
}

const BLOCK: usize = 4096;

fn interesting_centres() -> Vec<u32> {
    let mut c = Vec::new();
    for e in 0..=254u32 {
        c.push(e << 23); // every exponent boundary, positive
        c.push((e << 23) | 0x8000_0000);
    }
    for v in [0.0f32, 88.72284, 88.3762626647949, 87.33655, 103.97208, 44.3614, 45.06, 17.32868, 16.635532, 9.010913, 8.317766, 1.0, 0.5, 20.0, 15.942385, 7.5] {
        c.push(v.to_bits());
        c.push((-v).to_bits());
    }
    c
}

fn enumerate(eng: &Engine, p: &C07) {
    let st = EnumStats { points: AtomicU64::new(0), failures: AtomicU64::new(0), first: Mutex::new(None), worst: Mutex::new(vec![0.0; 10]) };
    match eng.tier {
        Tier::Thorough => {
            let blocks = (1u64 << 32) / BLOCK as u64;
            (0..blocks).into_par_iter().for_each(|b| {
                let start = b * BLOCK as u64;
                let bits: Vec<u32> = (0..BLOCK as u64).map(|i| (start + i) as u32).collect();
                run_block(&bits, b, &st);
            });
        }
        Tier::Quick => {
            let stride = 2039u64;
            let off = eng.seed % stride;
            let total = ((1u64 << 32) - off + stride - 1) / stride;
            let blocks = (total + BLOCK as u64 - 1) / BLOCK as u64;
            (0..blocks).into_par_iter().for_each(|b| {
                let bits: Vec<u32> = (0..BLOCK as u64)
                    .map(|i| off + (b * BLOCK as u64 + i) * stride)
                    .filter(|v| *v < (1u64 << 32))
                    .map(|v| v as u32)
                    .collect();
                run_block(&bits, b, &st);
            });
            let centres = interesting_centres();
            centres.par_iter().for_each(|c| {
                let bits: Vec<u32> = (0..512u32).map(|k| c.wrapping_add(k).wrapping_sub(256)).collect();
                // both representations: block number parity selects flat (even) or 3-D (odd)
                run_block(&bits, 0, &st);
                run_block(&bits, 1, &st);
            });
        }
    }
    let points = st.points.load(Ordering::Relaxed);
    {
        let mut e = eng.evidence.lock().unwrap();
        e.evaluations += points * 10;
        // every finite bit pattern is a distinct case; they are non-trivial unless x == +-0
        e.extra.insert("enumerated_bit_patterns".into(), json!(points));
        e.extra.insert("enumerated_function_evaluations".into(), json!(points * 10));
        e.extra.insert("enumeration_failures".into(), json!(st.failures.load(Ordering::Relaxed)));
        let w = st.worst.lock().unwrap();
        for (i, a) in ACTS.iter().enumerate() {
            e.worst.insert(format!("{:?}.forward", a), w[i * 2]);
            e.worst.insert(format!("{:?}.backward", a), w[i * 2 + 1]);
        }
        if eng.tier == Tier::Thorough {
            e.exhaustive = true;
            e.notes.push("element-wise activations: all 2^32 bit patterns enumerated (finite ones checked) for 5 functions x forward/backward, alternating flat and 3-D blocks; soft-max is sampled".into());
        }
        e.extra.insert("enumerated_distinct_nontrivial".into(), json!(points.saturating_sub(2)));
    }
    let fb = st.first.lock().unwrap().clone();
    if let Some((bits, ai, backward, use3d, msg)) = fb {
        let tape = vec![enc_pick(0, 2), enc_pick(ai, 5), if backward { u32::MAX } else { 0 }, if use3d { u32::MAX } else { 0 }, enc_pick(0, 3), bits];
        eng.report_violation(p, &tape, &format!("{} [{} failing points in this enumeration]", msg, st.failures.load(Ordering::Relaxed)), "enum");
    }
}

#[derive(Debug, Clone)]
enum Case {
    Point { act: Act, backward: bool, rank3: bool, x: f32, pad: usize },
    Softmax { dims: Vec<usize>, class: u8, seed: u32, shift_k: i64 },
}

fn decode(tape: &[u32]) -> Case {
    let mut t = Tape::new(tape);
    match t.pick(2) {
        0 => {
            let act = ACTS[t.pick(5)];
            let backward = t.bool();
            let rank3 = t.bool();
            let x = match t.pick(3) {
                0 => f32::from_bits(t.raw()),
                1 => t.f32_in(-110.0, 110.0),
                _ => {
                    let c = interesting_centres();
                    let base = c[t.pick(c.len())];
                    f32::from_bits(base.wrapping_add(t.usize(0, 512) as u32).wrapping_sub(256))
                }
            };
            let pad = t.usize(0, 6);
            Case::Point { act, backward, rank3, x: if x.is_finite() { x } else { 1.0 }, pad }
        }
        _ => {
            let rank3 = t.bool();
            // one case in 30 is long (65..2100 elements / up to 8 x 12 x 12)
            let long = t.chance(1, 30);
            let dims = match (rank3, long) {
                (true, false) => vec![t.usize(1, 4), t.usize(1, 4), t.usize(1, 4)],
                (true, true) => vec![t.usize(2, 8), t.usize(5, 12), t.usize(5, 12)],
                (false, false) => vec![t.usize(1, 64)],
                (false, true) => vec![t.usize(65, 2100)],
            };
            let class = t.pick(6) as u8;
            let seed = t.raw();
            let shift_k = t.int(-(1 << 20), 1 << 20);
            Case::Softmax { dims, class, seed, shift_k }
        }
    }
}

fn softmax_inputs(n: usize, class: u8, seed: u32) -> Vec<f32> {
    let mut m = Mix::new(seed as u64 + 1);
    (0..n)
        .map(|i| match class {
            0 => (m.below(2049) as f32 - 1024.0) / 256.0,                 // small, on the 2^-8 grid
            1 => m.f32_in(1e30, 3.4e38) * if m.below(2) == 0 { 1.0 } else { -1.0 }, // huge
            2 => {
                if m.below(3) == 0 {
                    m.f32_in(-3e38, 3e38)
                } else {
                    m.f32_in(-10.0, 10.0)
                }
            }
            3 => 2.5,                                                       // all equal
            4 => {
                if i == (seed as usize) % n {
                    100.0 + (m.below(512) as f32) / 256.0
                } else {
                    (m.below(1025) as f32 - 512.0) / 256.0
                }
            } // one dominant
            _ => (m.below(1 << 20) as f32 - (1 << 19) as f32) / 256.0,     // wide, still on the grid (|x| < 2^11)
        })
        .collect()
}

fn to_tensor(dims: &[usize], v: &[f32]) -> Tensor {
    tens::build(dims, v)
}

fn check(case: &Case, ev: &mut CaseEv) -> CheckResult {
    match case {
        Case::Point { act, backward, rank3, x, pad } => {
            ev.class(format!("point:{:?}:{}", act, if *backward { "bwd" } else { "fwd" }));
            ev.nontrivial = *x != 0.0;
            ev.set_sig(&(*act, *backward, *rank3, x.to_bits()));
            let mut xs = vec![*x];
            for i in 0..*pad {
                xs.push(i as f32 - 2.5);
            }
            let dims3 = if *rank3 { Some((1, 1, xs.len())) } else { None };
            let f = make(*act);
            let ys = apply(&f, *backward, &xs, dims3).map_err(Fail::new)?;
            let r = check_point(*act, *backward, *x, ys[0]).map_err(Fail::new)?;
            ev.ratio("point", r);
            Ok(())
        }
        Case::Softmax { dims, class, seed, shift_k } => {
            let n: usize = dims.iter().product();
            let xs = softmax_inputs(n, *class, *seed);
            ev.class(format!("softmax:class{}:rank{}", class, dims.len()));
            ev.nontrivial = n >= 2;
            ev.set_sig(&("softmax", dims, class, seed));
            let f = Function::create(&Activation::Softmax);
            let input = to_tensor(dims, &xs);
            let out = catch(|| f.forward(&input)).map_err(|p| Fail::new(format!("softmax forward panicked on {} inputs (class {}): {}", n, class, p)))?;
            ensure!(out.shape == input.shape && tens::consistent(&out), "softmax output shape {:?} != input shape {:?}", out.shape, input.shape);
            let ys = tens::flat(&out);
            ensure!(ys.len() == n, "softmax element count");
            let mut sum = 0.0f64;
            for (i, y) in ys.iter().enumerate() {
                ensure!(y.is_finite(), "softmax output {} is {:?} for finite inputs (class {}, max |x| = {:e})", i, y, class, xs.iter().fold(0.0f32, |a, b| a.max(b.abs())));
                ensure!(*y >= 0.0, "softmax output {} is negative: {:e}", i, y);
                sum += *y as f64;
            }
            let tol = 4.0 * n as f64 * crate::fcmp::EPS32 * 2.0;
            ev.ratio("softmax_sum", (sum - 1.0).abs() / tol);
            ensure!((sum - 1.0).abs() <= tol, "softmax outputs sum to {} (n = {}, tolerance {:e})", sum, n, tol);
            // reference values
            let mx = xs.iter().cloned().fold(f32::NEG_INFINITY, f32::max) as f64;
            let ex: Vec<f64> = xs.iter().map(|x| (*x as f64 - mx).exp()).collect();
            let es: f64 = ex.iter().sum();
            let mut worst = 0.0f64;
            for i in 0..n {
                let r = ex[i] / es;
                // (n eps: worst-case rounding of the sequential single-precision sum of n exponentials)
                let t = (2e-5 + 2.0 * crate::fcmp::EPS32 * n as f64) * r + 1e-37;
                let e = (ys[i] as f64 - r).abs();
                worst = worst.max(e / t);
                ensure!(e <= t, "softmax output {}: library {:e}, definition {:e}", i, ys[i], r);
            }
            ev.ratio("softmax_value", worst);
            // shift invariance on exactly representable shifts
            if matches!(class, 0 | 3 | 4 | 5) {
                let c = *shift_k as f32 / 256.0;
                let shifted: Vec<f32> = xs.iter().map(|x| x + c).collect();
                let exact = xs.iter().zip(shifted.iter()).all(|(x, s)| (*x as f64 + c as f64) == *s as f64);
                if exact {
                    ev.class("softmax:shift-tested");
                    let out2 = catch(|| f.forward(&to_tensor(dims, &shifted))).map_err(|p| Fail::new(format!("softmax panicked on shifted input: {p}")))?;
                    let y2 = tens::flat(&out2);
                    for i in 0..n {
                        let d = crate::fcmp::ulps32(ys[i], y2[i]);
                        ensure!(d <= 2, "softmax not shift-invariant: output {} is {:e} for x and {:e} for x + {} ({} ulp apart)", i, ys[i], y2[i], c, d);
                    }
                }
            }
            Ok(())
        }
    }
}

pub struct C07;

impl Prop for C07 {
    fn id(&self) -> &'static str {
        "C07"
    }
    fn tape_len(&self, _t: Tier) -> usize {
        16
    }
    fn cases(&self, t: Tier) -> usize {
        t.pick(300_000, 10_000_000)
    }
    fn rule(&self) -> String {
        "element-wise activations: enumeration of single-precision bit patterns through the public tensor API in blocks of 4096 alternating flat and 3-D (quick: arithmetic progression with prime stride 2039 and seed offset + 512 patterns around every exponent boundary and around 0, +-88.7, +-44, +-17, ...; thorough: all 2^32 patterns), 5 functions x forward/backward per pattern; every finite pattern is a distinct case, non-trivial unless x = +-0. Soft-max and single points: tape-decoded cases (length 1..64 flat or c x h x w up to 4 x 4 x 4; one case in 30: 65..2100 flat or up to 8 x 12 x 12, six input classes incl. +-3e38, all-equal, one dominant; shift tested with grid inputs and grid shifts so that x + c is exact). distinct_nontrivial counts only the tape-decoded cases; the enumeration count is reported separately.".into()
    }
    fn run_case(&self, tape: &[u32], ev: &mut CaseEv) -> CheckResult {
        check(&decode(tape), ev)
    }
    fn describe(&self, tape: &[u32]) -> Value {
        json!(format!("{:?}", decode(tape)))
    }
}

pub fn run(eng: &Engine, replay_path: Option<&str>) -> i32 {
    let p = C07;
    if let Some(path) = replay_path {
        return replay(&p, eng, path);
    }
    eng.run_regressions(&p);
    eng.report_known(&p);
    enumerate(eng, &p);
    eng.explore(&p);
    eng.finish(&p)
}

