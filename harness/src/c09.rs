//! C09 — dropout never leaks into prediction or validation.
//!
//! Differential oracle: network B is built from the same specification with every dropout removed.

use crate::engine::*;
use crate::net::*;
use crate::refmodel::{ActK, ObjK};
use crate::tape::{payload, Tape};
use crate::tens;
use crate::{ensure, fail};
use neurons::network::Network;
use neurons::optimizer;
use neurons::random::Generator;
use neurons::tensor::Tensor;
use serde_json::{json, Value};

#[derive(Debug, Clone)]
struct Case {
    spec: NetSpec,
    epochs: i32,
    with_val: bool,
    batch: usize,
    ntrain: usize,
    nval: usize,
    wseed: u32,
    dseed: u32,
    stop_tol: i32,
    /// a loop connection to try on both networks: (selector among the fitting ranges, iterations, input skips, loop accumulation)
    looped: Option<(u32, usize, bool, Acc)>,
}

fn decode(tape: &[u32]) -> Case {
    let mut t = Tape::new(tape);
    let o = GenOpts { max_layers: 4, max_hw: 4, max_c: 2, allow_feedback: true, allow_dropout: true, acts: &[ActK::Linear, ActK::Tanh, ActK::Sigmoid, ActK::Leaky], max_dense: 6, end_dense: true, ..GenOpts::default() };
    let mut spec = gen_net(&mut t, &o);
    // make sure at least one layer has dropout
    if !spec.layers.iter().any(|l| l.has_dropout()) {
        for l in spec.layers.iter_mut() {
            match l {
                LayerSpec::Dense { dropout, .. } | LayerSpec::Conv { dropout, .. } | LayerSpec::Deconv { dropout, .. } => {
                    *dropout = Some(t.usize(50, 950) as u32);
                    break;
                }
                _ => {}
            }
        }
    }
    // more dense layers with dropout (the flag handling differs after the first dense layers)
    let extra = t.usize(0, 2);
    for _ in 0..extra {
        let d = if t.bool() { Some(t.usize(50, 950) as u32) } else { None };
        spec.layers.push(LayerSpec::Dense { out: t.usize(1, 6), act: gen_act(&mut t, &o), bias: t.bool(), dropout: d });
    }
    // a quarter of the networks end in a soft-max layer (arg-max accuracy rule), half of those with dropout on it
    if t.chance(1, 4) {
        let with_dropout = t.bool();
        let rate = t.usize(50, 950) as u32;
        if let Some(LayerSpec::Dense { act, dropout, .. }) = spec.layers.last_mut() {
            *act = ActK::Softmax;
            if with_dropout {
                *dropout = Some(rate);
            }
        }
    }
    let epochs = t.usize(1, 4) as i32;
    let with_val = !t.chance(1, 5);
    // early stopping fires in part of the cases (tolerance 1 always stops after epoch 2)
    let stop_tol = [1000, 1000, 1, 2, 3][t.pick(5)];
    let (batch, ntrain, nval, wseed, dseed) = (t.usize(1, 4), t.usize(1, 6), if t.chance(1, 12) { t.usize(65, 150) } else { t.usize(1, 5) }, t.raw(), t.raw());
    // (drawn last, so that earlier replay files keep their meaning)
    // one case in three: feedback blocks get skip flags and any of the five accumulations
    if t.chance(1, 3) {
        for l in spec.layers.iter_mut() {
            if let LayerSpec::Feedback { inskips, outskips, acc, loops, .. } = l {
                *inskips = t.bool();
                *outskips = t.bool();
                if t.bool() {
                    *acc = ACCS[t.pick(5)];
                }
                *loops = t.usize(2, 3);
            }
        }
    }
    // one case in three: leaky units become rectified ones (outputs that are exactly zero without any dropout)
    if t.chance(1, 3) {
        fn relu(l: &mut LayerSpec) {
            match l {
                LayerSpec::Dense { act, .. } | LayerSpec::Conv { act, .. } | LayerSpec::Deconv { act, .. } => {
                    if *act == ActK::Leaky || *act == ActK::Linear {
                        *act = ActK::ReLU;
                    }
                }
                LayerSpec::Feedback { layers, .. } => layers.iter_mut().for_each(relu),
                _ => {}
            }
        }
        let last = spec.layers.len() - 1;
        for l in spec.layers[..last].iter_mut() {
            relu(l);
        }
    }
    // one case in three: a loop connection over a range of plain layers whose output shape is its input shape
    let looped = if t.chance(1, 3) { Some((t.raw(), t.usize(1, 2), t.bool(), ACCS[t.pick(5)])) } else { None };
    Case { spec, epochs, with_val, batch, ntrain, nval, wseed, dseed, stop_tol, looped }
}

fn no_dropout(spec: &NetSpec) -> NetSpec {
    NetSpec { input: spec.input.clone(), layers: spec.layers.iter().map(|l| l.without_dropout()).collect() }
}

/// Does a dropout layer of `width` outputs with this rate zero at least one element (seed 12345)?
fn mask_drops(width: usize, rate: f32) -> bool {
    let mut g = Generator::create(12345);
    (0..width).any(|_| g.generate(0.0, 1.0) < rate)
}

fn dropout_effective(spec: &NetSpec) -> bool {
    let mut cur = spec.input.clone();
    let mut eff = false;
    fn inner(l: &LayerSpec, cur: &mut Vec<usize>, eff: &mut bool) {
        let out = model_out(cur, l).unwrap();
        match l {
            LayerSpec::Dense { dropout: Some(d), .. } | LayerSpec::Conv { dropout: Some(d), .. } | LayerSpec::Deconv { dropout: Some(d), .. } => {
                if mask_drops(count(&out), *d as f32 / 1000.0) {
                    *eff = true;
                }
            }
            LayerSpec::Feedback { layers, .. } => {
                let mut c = cur.clone();
                for il in layers {
                    inner(il, &mut c, eff);
                }
            }
            _ => {}
        }
        *cur = out;
    }
    for l in &spec.layers {
        inner(l, &mut cur, &mut eff);
    }
    eff
}

/// The range (a, b) the case's loop connection covers, if any range fits: plain layers only, output shape of b ==
/// input shape of a as the library announces them.
fn loop_range(spec: &NetSpec, net: &Network, sel: u32) -> Option<(usize, usize)> {
    let shapes = announced_shapes(net).ok()?;
    let mut fits = Vec::new();
    for a in 0..spec.layers.len() {
        for b in a..spec.layers.len() {
            if spec.layers[a..=b].iter().any(|l| matches!(l, LayerSpec::Feedback { .. })) {
                break;
            }
            if shapes[a].0 == shapes[b].1 {
                fits.push((a, b));
            }
        }
    }
    if fits.is_empty() { None } else { Some(fits[sel as usize % fits.len()]) }
}

fn prepare(spec: &NetSpec, ps: &[(PRef, Tensor)], looped: Option<(usize, usize, usize, bool, Acc)>) -> Result<Network, String> {
    let mut n = build(spec)?;
    if let Some((a, b, k, ins, acc)) = looped {
        catch(std::panic::AssertUnwindSafe(|| {
            n.set_accumulation(Acc::Add.lib(), acc.lib());
            n.loopback(b, a, k, std::sync::Arc::new(|x| 1.0 / x), ins);
        }))?;
    }
    apply_params(&mut n, ps);
    n.set_objective(lib_obj(ObjK::MSE), None);
    n.set_optimizer(optimizer::SGD::create(0.03125, None));
    Ok(n)
}

fn check(case: &Case, ev: &mut CaseEv) -> CheckResult {
    let spec = &case.spec;
    let twin_spec = no_dropout(spec);
    let ndense = spec.layers.iter().filter(|l| matches!(l, LayerSpec::Dense { .. })).count();
    ev.class(format!("dense layers:{}", ndense.min(3)));
    if let Some(LayerSpec::Dense { act: ActK::Softmax, dropout, .. }) = spec.layers.last() {
        ev.class(if dropout.is_some() { "soft-max output with dropout" } else { "soft-max output" });
    }
    let positions: Vec<usize> = spec.layers.iter().enumerate().filter(|(_, l)| l.has_dropout()).map(|(i, _)| i).collect();
    for p in &positions {
        ev.class(if *p == 0 { "dropout:first" } else if *p == spec.layers.len() - 1 { "dropout:last" } else { "dropout:middle" });
        if matches!(spec.layers[*p], LayerSpec::Feedback { .. }) {
            ev.class("dropout:in feedback block");
        }
    }
    let a0 = build(spec).map_err(|p| Fail::new(format!("valid network rejected: {} ({:?})", p, spec)))?;
    let ps = seeded_params(&a0, spec, case.wseed, 1, 1.0);
    let looped = case.looped.and_then(|(sel, k, ins, acc)| loop_range(spec, &a0, sel).map(|(a, b)| (a, b, k, ins, acc)));
    if let Some((a, b, _, _, _)) = looped {
        ev.class("loop connection");
        if a >= 1 && spec.layers[a - 1].has_dropout() {
            ev.class("loop connection entered right after a layer with dropout");
        }
        if spec.layers[a..=b].iter().any(|l| l.has_dropout()) {
            ev.class("dropout inside the looped range");
        }
    }
    let has_block_skips = spec.layers.iter().any(|l| matches!(l, LayerSpec::Feedback { inskips, outskips, acc, .. } if *inskips || *outskips || *acc != Acc::Mean));
    if has_block_skips {
        ev.class("feedback block with skips");
    }
    let n_in = count(&spec.input);
    let out_dims = final_dims(spec);
    let mk = |seed: u32, n: usize| -> (Vec<Tensor>, Vec<Tensor>) {
        (
            (0..n).map(|i| tens::build(&spec.input, &payload(seed.wrapping_add(i as u32 * 31), 1, n_in, 1.0))).collect(),
            (0..n).map(|i| tens::build(&out_dims, &payload(seed.wrapping_add(1000 + i as u32 * 17), 1, count(&out_dims), 1.0))).collect(),
        )
    };
    let (tx, ty) = mk(case.dseed, case.ntrain);
    let (vx, vy) = mk(case.dseed ^ 0x5555, case.nval);
    let (txr, tyr): (Vec<&Tensor>, Vec<&Tensor>) = (tx.iter().collect(), ty.iter().collect());
    let (vxr, vyr): (Vec<&Tensor>, Vec<&Tensor>) = (vx.iter().collect(), vy.iter().collect());

    // (3) a never-trained A predicts like B
    {
        let a = prepare(spec, &ps, looped).map_err(Fail::new)?;
        let b = prepare(&twin_spec, &ps, looped).map_err(Fail::new)?;
        for x in vx.iter() {
            let (pa, pb) = (catch(|| a.predict(x)).map_err(|p| Fail::new(format!("predict of the network with dropout layers panicked: {p}; loop {:?}; spec {:?}", looped, spec)))?, catch(|| b.predict(x)).map_err(|p| Fail::new(format!("harness: predict of the dropout-free twin panicked: {p}")))?);
            ensure!(tens::first_bit_diff(&tens::flat(&pa), &tens::flat(&pb)).is_none(), "a never-trained network with dropout layers predicts differently from the same network without dropout");
        }
    }

    // (3b) one case in four: learn() with a budget of zero epochs must leave the network predicting like the twin as well
    if case.wseed % 4 == 0 {
        let mut a = prepare(spec, &ps, looped).map_err(Fail::new)?;
        let b = prepare(&twin_spec, &ps, looped).map_err(Fail::new)?;
        let r = catch(std::panic::AssertUnwindSafe(|| if case.with_val { a.learn(&txr, &tyr, Some((&vxr, &vyr, case.stop_tol)), case.batch, 0, None) } else { a.learn(&txr, &tyr, None, case.batch, 0, None) }));
        if r.is_ok() {
            ev.class("learn with zero epochs");
            for x in vx.iter() {
                let (pa, pb) = (catch(|| a.predict(x)).map_err(Fail::new)?, catch(|| b.predict(x)).map_err(Fail::new)?);
                ensure!(tens::first_bit_diff(&tens::flat(&pa), &tens::flat(&pb)).is_none(), "after learn() with a budget of zero epochs the network with dropout layers predicts differently from the same network without dropout; spec {:?}", spec);
            }
        }
    }
    for e in 1..=case.epochs {
        let mut a = prepare(spec, &ps, looped).map_err(Fail::new)?;
        let r = catch(std::panic::AssertUnwindSafe(|| {
            if case.with_val {
                a.learn(&txr, &tyr, Some((&vxr, &vyr, case.stop_tol)), case.batch, e, None)
            } else {
                a.learn(&txr, &tyr, None, case.batch, e, None)
            }
        }));
        let (_tl, vl, va) = match r {
            Ok(v) => v,
            Err(p) => {
                let outputs_nonfinite = vx.iter().chain(tx.iter()).any(|x| catch(|| a.predict(x)).map(|o| tens::flat(&o).iter().any(|v| !v.is_finite())).unwrap_or(true));
                if p.contains("Loss is NaN") || outputs_nonfinite || collect_params(&a).iter().any(|(_, t)| tens::flat(t).iter().any(|v| !v.is_finite())) {
                    // (a diverged network also aborts in arg-max over NaN outputs during its own validation)
                    ev.discard = Some("training diverged to NaN");
                    return Ok(());
                }
                if looped.is_some() || has_block_skips {
                    // training through a loop connection or through a block with internal skips is refused for some
                    // configurations, with or without dropout: only a refusal that the dropout-free twin does not
                    // share is held against the dropout handling
                    let mut b0 = prepare(&twin_spec, &ps, looped).map_err(Fail::new)?;
                    let rb = catch(std::panic::AssertUnwindSafe(|| if case.with_val { b0.learn(&txr, &tyr, Some((&vxr, &vyr, case.stop_tol)), case.batch, e, None) } else { b0.learn(&txr, &tyr, None, case.batch, e, None) }));
                    if rb.is_err() {
                        ev.discard = Some("learn aborts for this loop connection / block with skips also without dropout");
                        return Ok(());
                    }
                }
                fail!("learn panicked: {}; loop {:?} ({:?})", p, looped, spec);
            }
        };
        let wa = collect_params(&a);
        if wa.iter().any(|(_, t)| tens::flat(t).iter().any(|v| !v.is_finite())) {
            ev.discard = Some("non-finite weights");
            return Ok(());
        }
        let mut b = prepare(&twin_spec, &wa, looped).map_err(Fail::new)?;
        // (1) after learn returns, A predicts and validates like B
        for x in vx.iter().chain(tx.iter()) {
            let (pa, pb) = (catch(|| a.predict(x)).map_err(|p| Fail::new(format!("predict of the network with dropout layers panicked: {p}; loop {:?}; spec {:?}", looped, spec)))?, catch(|| b.predict(x)).map_err(|p| Fail::new(format!("harness: predict of the dropout-free twin panicked: {p}")))?);
            if let Some(i) = tens::first_bit_diff(&tens::flat(&pa), &tens::flat(&pb)) {
                fail!("after learn() returned ({} epochs), predict element {} is {:e} but the identical network without dropout gives {:e}; dropout layers at {:?}; spec {:?}", e, i, tens::flat(&pa)[i], tens::flat(&pb)[i], positions, spec);
            }
        }
        let rb = catch(std::panic::AssertUnwindSafe(|| b.validate(&vxr, &vyr, 1e-6)));
        let ra = catch(std::panic::AssertUnwindSafe(|| a.validate(&vxr, &vyr, 1e-6)));
        let ((bl, ba), (al, aa)) = match (rb, ra) {
            (Ok(x), Ok(y)) => (x, y),
            (Err(_), Err(_)) => {
                // (predictions were just shown bit-identical; with NaN outputs both abort in arg-max alike)
                ev.discard = Some("validate aborts with and without dropout layers alike (non-finite outputs)");
                return Ok(());
            }
            (Ok(_), Err(p)) => fail!("validate aborts with dropout layers ({}) but not for the identical network without; spec {:?}", p, spec),
            (Err(p), Ok(_)) => fail!("validate aborts for the dropout-free twin ({}) but not with dropout layers; spec {:?}", p, spec),
        };
        ensure!(al.to_bits() == bl.to_bits() && aa.to_bits() == ba.to_bits(), "validate after training: ({:e}, {:e}) with dropout layers vs ({:e}, {:e}) without; spec {:?}", al, aa, bl, ba, spec);
        // a stand-alone validate() must not switch dropout back on
        for x in vx.iter().take(2) {
            let (pa, pb) = (catch(|| a.predict(x)).map_err(|p| Fail::new(format!("predict of the network with dropout layers panicked: {p}; loop {:?}; spec {:?}", looped, spec)))?, catch(|| b.predict(x)).map_err(|p| Fail::new(format!("harness: predict of the dropout-free twin panicked: {p}")))?);
            if let Some(i) = tens::first_bit_diff(&tens::flat(&pa), &tens::flat(&pb)) {
                fail!("after learn() and a stand-alone validate() on {} samples, predict element {} is {:e} but the dropout-free network gives {:e}; spec {:?}", case.nval, i, tens::flat(&pa)[i], tens::flat(&pb)[i], spec);
            }
        }
        // (2) the validation metrics reported by learn itself for its last epoch
        if case.with_val {
            ensure!(vl.len() <= e as usize && !vl.is_empty(), "harness: {} validation entries after {} epochs", vl.len(), e);
            if vl.len() < e as usize {
                ev.class("early stop fired");
            }
            let (lv, lacc) = (*vl.last().unwrap(), *va.last().unwrap());
            if lv.to_bits() != bl.to_bits() || lacc.to_bits() != ba.to_bits() {
                return Err(Fail::known(
                    format!(
                        "validation metrics reported by learn() for epoch {} are (loss {:e}, accuracy {:e}); the dropout-free network with the same weights gives ({:e}, {:e}); dropout layers at {:?}, {} dense layers; spec {:?}",
                        e, lv, lacc, bl, ba, positions, ndense, spec
                    ),
                    "validate_leaves_dropout_on",
                ));
            }
        }
    }
    ev.nontrivial = dropout_effective(spec) && case.with_val;
    ev.set_sig(&(spec, case.epochs, case.with_val));
    Ok(())
}

pub struct C09;

impl Prop for C09 {
    fn id(&self) -> &'static str {
        "C09"
    }
    fn tape_len(&self, _t: Tier) -> usize {
        96
    }
    fn cases(&self, t: Tier) -> usize {
        t.pick(40_000, 2_000_000)
    }
    fn rayon_threads(&self) -> Option<usize> {
        Some(2)
    }
    fn rule(&self) -> String {
        "tape-decoded layer sequence (1-4 generated layers of any kind incl. feedback blocks, ending in a dense layer, plus 0-2 further dense layers; a quarter of the networks end in a soft-max layer, half of those with dropout on it) with dropout (rate 0.05..0.95) on any subset incl. layers inside blocks (at least one); in one case of three each the feedback blocks get random input / output skip flags, 2-3 loops and in half of those any of the five accumulations, leaky / linear units become rectified ones (exact zeros without any dropout), and a loop connection (1-2 iterations, input skips on/off, any accumulation) is put over a range of plain layers whose announced output shape equals its input shape (the same on the twin; a learn() that aborts for such a configuration with and without dropout alike, or a run whose outputs become non-finite, is discarded and counted); 1-4 epochs, with (4/5) or without validation data, early-stopping tolerance in {1000, 1, 2, 3} (so early stops occur), 1-6 training and 1-5 validation samples (one case in twelve: 65-150 validation samples), batch 1-4, SGD lr 1/32, MSE. Oracle: the dropout-free twin built from the same specification: (1) after learn() returns, copy the weights into the twin: predict and validate agree bitwise; (2) for e = 1..E a fresh network trained exactly e epochs reports as its last validation loss / accuracy what the twin's validate gives on those weights (bitwise); (3) a never-trained network, and (one case in four) a network after learn() with a budget of zero epochs, predicts like the twin. Non-trivial: some dropout mask (recomputed with the public generator, seed 12345) zeroes >= 1 element, and validation data present. Distinct = (architecture with dropout pattern, epochs, validation y/n).".into()
    }
    fn run_case(&self, tape: &[u32], ev: &mut CaseEv) -> CheckResult {
        check(&decode(tape), ev)
    }
    fn describe(&self, tape: &[u32]) -> Value {
        let c = decode(tape);
        json!({"spec": format!("{:?}", c.spec), "epochs": c.epochs, "with_val": c.with_val, "batch": c.batch, "ntrain": c.ntrain, "nval": c.nval, "loop_request(selector, iterations, inskips, accumulation)": format!("{:?}", c.looped)})
    }
}

pub fn run(eng: &Engine, replay_path: Option<&str>) -> i32 {
    let p = C09;
    if let Some(path) = replay_path {
        return replay(&p, eng, path);
    }
    standard_run(&p, eng)
}
