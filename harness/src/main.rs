mod engine;
mod fcmp;
mod net;
mod refmodel;
mod tape;
mod tens;

mod c01;
mod c02;
mod c03;
mod c04;
mod c05;
mod c06;
mod c07;
mod c08;
mod c09;
mod c10;
mod c11;
mod c12;
mod c13;
mod c14;
mod c15;
mod c16;
mod c17;
mod c18;

use engine::{Engine, Tier};

fn usage() -> ! {
    eprintln!("usage: nverif <ID> [--tier quick|thorough] [--seed N] [--replay FILE] [--verif-dir DIR]");
    std::process::exit(2)
}

fn main() {
    let args: Vec<String> = std::env::args().collect();
    if args.len() < 2 {
        usage();
    }
    let id = args[1].clone();
    let mut tier = Tier::Quick;
    let mut seed: u64 = 0;
    let mut replay: Option<String> = None;
    let mut verif_dir = "/verif".to_string();
    let mut out_dir: Option<String> = None;
    let mut i = 2;
    while i < args.len() {
        match args[i].as_str() {
            "--tier" => {
                i += 1;
                tier = match args.get(i).map(|s| s.as_str()) {
                    Some("quick") => Tier::Quick,
                    Some("thorough") => Tier::Thorough,
                    _ => usage(),
                };
            }
            "--seed" => {
                i += 1;
                seed = args.get(i).and_then(|s| s.parse().ok()).unwrap_or_else(|| usage());
            }
            "--replay" => {
                i += 1;
                replay = Some(args.get(i).cloned().unwrap_or_else(|| usage()));
            }
            "--verif-dir" => {
                i += 1;
                verif_dir = args.get(i).cloned().unwrap_or_else(|| usage());
            }
            "--out-dir" => {
                i += 1;
                out_dir = Some(args.get(i).cloned().unwrap_or_else(|| usage()));
            }
            _ => usage(),
        }
        i += 1;
    }

    // Library panics are part of what is observed (caught per case); keep stderr quiet.
    std::panic::set_hook(Box::new(|_| {}));

    let out_dir = out_dir.unwrap_or_else(|| verif_dir.clone());
    let eng = Engine::new(&id, tier, seed, &verif_dir, &out_dir);
    let code = match id.as_str() {
        "C01" => c01::run(&eng, replay.as_deref()),
        "C02" => c02::run(&eng, replay.as_deref()),
        "C03" => c03::run(&eng, replay.as_deref()),
        "C04" => c04::run(&eng, replay.as_deref()),
        "C05" => c05::run(&eng, replay.as_deref()),
        "C06" => c06::run(&eng, replay.as_deref()),
        "C07" => c07::run(&eng, replay.as_deref()),
        "C08" => c08::run(&eng, replay.as_deref()),
        "C09" => c09::run(&eng, replay.as_deref()),
        "C10" => c10::run(&eng, replay.as_deref()),
        "C11" => c11::run(&eng, replay.as_deref()),
        "C12" => c12::run(&eng, replay.as_deref()),
        "C13" => c13::run(&eng, replay.as_deref()),
        "C14" => c14::run(&eng, replay.as_deref()),
        "C15" => c15::run(&eng, replay.as_deref()),
        "C16" => c16::run(&eng, replay.as_deref()),
        "C17" => c17::run(&eng, replay.as_deref()),
        "C18" => c18::run(&eng, replay.as_deref()),
        _ => {
            eprintln!("unknown property {}", id);
            2
        }
    };
    std::process::exit(code);
}
