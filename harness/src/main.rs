

use nverif::engine::{Engine, Tier};

fn usage() -> ! {
    eprintln!("usage: nverif <ID> [--tier quick|thorough] [--seed N] [--replay FILE] [--verif-dir DIR]");
    std::process::exit(2)
}

fn main() {
    let args: Vec<String> = std::env::args().collect();
    if args.len() < 2 {
        usage();
    }
    let id = args[1].clone();
    let mut tier = Tier::Quick;
    let mut seed: u64 = 0;
    let mut replay: Option<String> = None;
    let mut verif_dir = "/verif".to_string();
    let mut out_dir: Option<String> = None;
    let mut i = 2;
    while i < args.len() {
        match args[i].as_str() {
            "--tier" => {
                i += 1;
                tier = match args.get(i).map(|s| s.as_str()) {
                    Some("quick") => Tier::Quick,
                    Some("thorough") => Tier::Thorough,
                    _ => usage(),
                };
            }
            "--seed" => {
                i += 1;
                seed = args.get(i).and_then(|s| s.parse().ok()).unwrap_or_else(|| usage());
            }
            "--replay" => {
                i += 1;
                replay = Some(args.get(i).cloned().unwrap_or_else(|| usage()));
            }
            "--verif-dir" => {
                i += 1;
                verif_dir = args.get(i).cloned().unwrap_or_else(|| usage());
            }
            "--out-dir" => {
                i += 1;
                out_dir = Some(args.get(i).cloned().unwrap_or_else(|| usage()));
            }
            _ => usage(),
        }
        i += 1;
    }

    // Library panics are part of what is observed (caught per case); keep stderr quiet.
    if std::env::var("NVERIF_BT").is_err() {
        std::panic::set_hook(Box::new(|_| {}));
    }

    // a replay file records the tier its tape was generated for (decoders may depend on it)
    if let Some(path) = &replay {
        if let Ok(text) = std::fs::read_to_string(path) {
            if text.contains("\"tier\": \"thorough\"") || text.contains("\"tier\":\"thorough\"") {
                tier = Tier::Thorough;
            }
        }
    }
    let out_dir = out_dir.unwrap_or_else(|| verif_dir.clone());
    let eng = Engine::new(&id, tier, seed, &verif_dir, &out_dir);
    let code = nverif::run_property(&id, &eng, replay.as_deref());
    std::process::exit(code);
}
