//! C15 — element-wise tensor arithmetic is exact, rank-generic and shape-checked.

use crate::engine::*;
use crate::fcmp::{ulp_of, EPS32};
use crate::tape::{Mix, Tape};
use crate::tens;
use crate::{ensure, fail};
use neurons::tensor::{self, Shape, Tensor};
use serde_json::{json, Value};

#[derive(Debug, Clone, Copy, PartialEq, Eq, Hash)]
enum Op {
    Add,
    Sub,
    Mul,
    Hadamard,
    Hadamard3d,
    DivScalar,
    Mean,
    Outer,
    Dot,
    Transpose,
    Clamp,
    Mismatch, // shape-mismatched operands must be refused
}

const OPS: [Op; 12] = [
    Op::Add, Op::Sub, Op::Mul, Op::Hadamard, Op::Hadamard3d, Op::DivScalar, Op::Mean, Op::Outer, Op::Dot, Op::Transpose, Op::Clamp, Op::Mismatch,
];

#[derive(Debug, Clone)]
struct Case {
    op: Op,
    dims: Vec<usize>,
    nested: u8, // 0 plain, 1 Nested list, 2 NestedOptional list
    members: usize,
    class_a: u32,
    class_b: u32,
    seed: u32,
    k: usize,
    scalar: f32,
    clamp: (f32, f32),
    mismatch_op: Op,
    mismatch_kind: u8,
}

fn decode(tape: &[u32]) -> Case {
    let mut t = Tape::new(tape);
    let op = OPS[t.pick(OPS.len())];
    let rank = t.usize(1, 4);
    let mut dims: Vec<usize> = (0..rank).map(|_| t.usize(1, 4)).collect();
    // one case in six uses a wide last axis (up to 300): internal blocking constants must not matter
    let wide = t.chance(1, 6);
    if wide {
        let last = dims.len() - 1;
        dims[last] = t.usize(20, 300);
        if dims.len() == 1 {
            dims.push(t.usize(20, 300)); // dot / outer / transpose read dims[1] as the column count
            dims.swap(0, 1);
            dims[0] = t.usize(1, 3);
        }
    }
    // one case in twelve is a matrix with both extents in 17..70 (blocked two-dimensional loops: corners and strips)
    if t.chance(1, 12) {
        dims = vec![t.usize(17, 70), t.usize(17, 70)];
    }
    let nested = if matches!(op, Op::Add | Op::DivScalar | Op::Mismatch) { t.pick(3) as u8 } else { 0 };
    let members = t.usize(1, 3);
    let class_a = t.pick(5) as u32;
    let class_b = t.pick(5) as u32;
    let seed = t.raw();
    let k = t.usize(1, 5);
    let scalar = match t.pick(7) {
        6 => {
            // a neighbour (1-3 ulp) of 1, 2, 0.5 or -1
            let base = [1.0f32, 2.0, 0.5, -1.0][t.pick(4)];
            let k = t.int(-3, 3) as i32;
            f32::from_bits((base.to_bits() as i32 + k) as u32)
        }
        0 => 1.0,
        1 => 0.5,
        2 => t.f32_in(-4.0, 4.0),
        3 => 1.0 / t.usize(1, 9) as f32,
        4 => t.f32_in(1e-3, 1e3),
        _ => -3.0,
    };
    let lo = t.f32_in(-3.0, 3.0);
    let w = match t.pick(3) {
        0 => 0.0,
        1 => t.f32_in(0.0, 1.0),
        _ => t.f32_in(0.0, 6.0),
    };
    let mismatch_op = [Op::Add, Op::Sub, Op::Mul, Op::Hadamard, Op::Mean][t.pick(5)];
    let mismatch_kind = t.pick(3) as u8;
    Case { op, dims, nested, members, class_a, class_b, seed, k, scalar, clamp: (lo, lo + w), mismatch_op, mismatch_kind }
}

/// finite contents: 0 small dyadic, 1 uniform O(1), 2 mixed magnitudes, 3 with signed zeros and
/// subnormals, 4 large (products near overflow excluded by the checks where relevant)
fn contents(n: usize, class: u32, seed: u32) -> Vec<f32> {
    let mut m = Mix::new(seed as u64 * 31 + class as u64);
    (0..n)
        .map(|i| match class {
            0 => ((i * 5 + 2) % 13) as f32 * 0.25 - 1.5,
            1 => m.f32_in(-2.0, 2.0),
            2 => {
                let e = m.below(40) as i32 - 20;
                m.f32_in(-1.0, 1.0) * 2f32.powi(e)
            }
            3 => match m.below(6) {
                0 => 0.0,
                1 => -0.0,
                2 => f32::from_bits(m.below(1 << 22) as u32 + 1),
                3 => -f32::from_bits(m.below(1 << 22) as u32 + 1),
                _ => m.f32_in(-1.0, 1.0),
            },
            _ => m.f32_in(-1.0, 1.0) * 1e18,
        })
        .collect()
}

fn count(dims: &[usize]) -> usize {
    dims.iter().product()
}

fn compare_bits(got: &[f32], want: &[f32], what: &str) -> CheckResult {
    ensure!(got.len() == want.len(), "{}: {} elements, expected {}", what, got.len(), want.len());
    for (i, (g, w)) in got.iter().zip(want.iter()).enumerate() {
        let same = g.to_bits() == w.to_bits() || (g.is_nan() && w.is_nan());
        ensure!(same, "{}: element {} = {:e} (bits {:08x}), IEEE single-precision result is {:e} (bits {:08x})", what, i, g, g.to_bits(), w, w.to_bits());
    }
    Ok(())
}

fn same_shape(after: &Tensor, before: &Shape, what: &str) -> CheckResult {
    ensure!(&after.shape == before, "{}: shape changed from {:?} to {:?}", what, before, after.shape);
    ensure!(tens::consistent(after), "{}: recorded shape no longer matches the data", what);
    Ok(())
}

fn make_list(case: &Case, class: u32, salt: u32, optional: bool) -> Tensor {
    let n = count(&case.dims);
    if optional {
        let ts: Vec<Option<Tensor>> = (0..case.members)
            .map(|j| {
                // the None pattern depends only on (seed, j) so that both operands agree
                if (case.seed >> (j + 3)) & 3 == 0 {
                    None
                } else {
                    Some(tens::build(&case.dims, &contents(n, class, case.seed.wrapping_add(salt + 17 * j as u32))))
                }
            })
            .collect();
        Tensor::nestedoptional(ts)
    } else {
        let mut ts: Vec<Tensor> = (0..case.members).map(|j| tens::build(&case.dims, &contents(n, class, case.seed.wrapping_add(salt + 17 * j as u32)))).collect();
        // one list in four is two levels deep: its last members form a nested list of their own
        if (case.seed >> 13) & 3 == 0 && ts.len() >= 2 {
            let inner = ts.split_off(ts.len() - 1 - (case.seed as usize >> 15) % (ts.len() - 1).max(1));
            ts.push(Tensor::nested(inner));
        }
        Tensor::nested(ts)
    }
}

fn check(case: &Case, ev: &mut CaseEv) -> CheckResult {
    let n = count(&case.dims);
    let a = contents(n, case.class_a, case.seed);
    let b = contents(n, case.class_b, case.seed ^ 0x5bd1e995);
    let big_axes = case.dims.iter().filter(|&&d| d > 1).count();
    ev.nontrivial = case.dims.len() >= 2 && big_axes >= 2;
    ev.set_sig(&(case.op, &case.dims, case.nested, case.mismatch_op, case.mismatch_kind, case.k));
    ev.class(format!("{:?}", case.op));
    ev.class(format!("rank{}", case.dims.len()));
    if case.nested == 1 && (case.seed >> 13) & 3 == 0 && case.members >= 2 {
        ev.class("nested list two levels deep");
    }
    if case.nested > 0 {
        ev.class("nested-list");
    }
    ev.units = n as u64;

    match case.op {
        Op::Add | Op::Sub | Op::Mul => {
            if case.op == Op::Add && case.nested > 0 {
                let mut x = make_list(case, case.class_a, 1, case.nested == 2);
                let y = make_list(case, case.class_b, 1000, case.nested == 2);
                let (fx, fy) = (tens::flat(&x), tens::flat(&y));
                let sh = x.shape.clone();
                catch(|| x.add_inplace(&y)).map_err(|p| Fail::new(format!("add_inplace on equal-shaped nested lists refused: {p}")))?;
                ensure!(x.shape == sh, "nested add changed the list shape");
                let want: Vec<f32> = fx.iter().zip(fy.iter()).map(|(p, q)| p + q).collect();
                return compare_bits(&tens::flat(&x), &want, "add_inplace (nested list)");
            }
            let mut x = tens::build(&case.dims, &a);
            let y = tens::build(&case.dims, &b);
            let sh = x.shape.clone();
            let (name, want): (&str, Vec<f32>) = match case.op {
                Op::Add => ("add_inplace", a.iter().zip(b.iter()).map(|(p, q)| p + q).collect()),
                Op::Sub => ("sub_inplace", a.iter().zip(b.iter()).map(|(p, q)| p - q).collect()),
                _ => ("mul_inplace", a.iter().zip(b.iter()).map(|(p, q)| p * q).collect()),
            };
            catch(|| match case.op {
                Op::Add => x.add_inplace(&y),
                Op::Sub => x.sub_inplace(&y),
                _ => x.mul_inplace(&y),
            })
            .map_err(|p| Fail::new(format!("{} rank {} refused equal shapes: {p}", name, case.dims.len())))?;
            same_shape(&x, &sh, name)?;
            compare_bits(&tens::flat(&x), &want, &format!("{} rank {} dims {:?}", name, case.dims.len(), case.dims))?;
            // the right operand must be untouched
            compare_bits(&tens::flat(&y), &b, &format!("{}: right operand modified", name))
        }
        Op::Hadamard | Op::Hadamard3d => {
            let s = case.scalar;
            let got: Vec<f32> = if case.op == Op::Hadamard {
                let mut x = tens::build(&case.dims, &a);
                let y = tens::build(&case.dims, &b);
                let sh = x.shape.clone();
                catch(|| x.hadamard(&y, s)).map_err(|p| Fail::new(format!("hadamard rank {} refused equal shapes: {p}", case.dims.len())))?;
                same_shape(&x, &sh, "hadamard")?;
                tens::flat(&x)
            } else {
                let d3 = [case.dims[0], *case.dims.get(1).unwrap_or(&1), *case.dims.get(2).unwrap_or(&1)];
                let n3 = d3[0] * d3[1] * d3[2];
                let (a3, b3) = (&a[..n3.min(a.len())], &b[..n3.min(b.len())]);
                if a3.len() != n3 {
                    return Ok(());
                }
                let x = tens::triple(d3[0], d3[1], d3[2], a3);
                let y = tens::triple(d3[0], d3[1], d3[2], b3);
                let r = catch(|| tensor::hadamard3d(x.as_triple(), y.as_triple(), s)).map_err(|p| Fail::new(format!("hadamard3d panicked: {p}")))?;
                let t = Tensor::triple(r);
                ensure!(t.shape == Shape::Triple(d3[0], d3[1], d3[2]), "hadamard3d shape {:?}", t.shape);
                tens::flat(&t)
            };
            let m = got.len();
            let mut worst = 0.0f64;
            for i in 0..m {
                let exact = a[i] as f64 * b[i] as f64 * s as f64;
                if !(exact.abs() < 1e37) || (exact != 0.0 && exact.abs() < 1e-30) {
                    continue; // overflow / deep underflow: association matters, not pinned
                }
                // intermediate products must stay normal for a 2-ulp claim
                let p1 = a[i] as f64 * b[i] as f64;
                if p1 != 0.0 && (p1.abs() < 1e-30 || p1.abs() > 1e37) {
                    continue;
                }
                let err = (got[i] as f64 - exact).abs();
                let tol = 2.0 * ulp_of(exact as f32).max(1e-45);
                worst = worst.max(err / tol);
                ensure!(err <= tol, "{:?}: element {}: {:e} * {:e} * {:e} gave {:e}, exact {:e} (more than 2 ulp)", case.op, i, a[i], b[i], s, got[i], exact);
            }
            ev.ratio("hadamard_2ulp", worst);
            Ok(())
        }
        Op::DivScalar => {
            let s = if case.scalar == 0.0 { 1.0 } else { case.scalar };
            if case.nested == 1 {
                let mut x = make_list(case, case.class_a, 1, false);
                let fx = tens::flat(&x);
                catch(|| x.div_scalar_inplace(s)).map_err(|p| Fail::new(format!("div_scalar_inplace on nested list panicked: {p}")))?;
                let want: Vec<f32> = fx.iter().map(|p| p / s).collect();
                return compare_bits(&tens::flat(&x), &want, "div_scalar_inplace (nested list)");
            }
            let mut x = tens::build(&case.dims, &a);
            let sh = x.shape.clone();
            catch(|| x.div_scalar_inplace(s)).map_err(|p| Fail::new(format!("div_scalar_inplace panicked: {p}")))?;
            same_shape(&x, &sh, "div_scalar_inplace")?;
            let want: Vec<f32> = a.iter().map(|p| p / s).collect();
            compare_bits(&tens::flat(&x), &want, &format!("div_scalar_inplace rank {}", case.dims.len()))
        }
        Op::Mean => {
            let k = case.k;
            let others_data: Vec<Vec<f32>> = (0..k).map(|j| contents(n, (case.class_b + j as u32) % 4, case.seed.wrapping_add(77 * j as u32 + 5))).collect();
            let others: Vec<Tensor> = others_data.iter().map(|d| tens::build(&case.dims, d)).collect();
            let refs: Vec<&Tensor> = others.iter().collect();
            let mut x = tens::build(&case.dims, &a);
            let sh = x.shape.clone();
            catch(|| x.mean_inplace(&refs)).map_err(|p| Fail::new(format!("mean_inplace over {} equal-shaped tensors refused: {p}", k)))?;
            same_shape(&x, &sh, "mean_inplace")?;
            let got = tens::flat(&x);
            let mut worst = 0.0f64;
            for i in 0..n {
                let mut sum = a[i] as f64;
                let mut mag = (a[i] as f64).abs();
                for d in &others_data {
                    sum += d[i] as f64;
                    mag += (d[i] as f64).abs();
                }
                let exact = sum / (k as f64 + 1.0);
                let tol = (k as f64 + 2.0) * EPS32 * 2.0 * mag / (k as f64 + 1.0) + 1e-44;
                let err = (got[i] as f64 - exact).abs();
                worst = worst.max(err / tol);
                ensure!(err <= tol, "mean_inplace k={} element {}: got {:e}, exact mean {:e} (err {:e} > tol {:e})", k, i, got[i], exact, err, tol);
            }
            ev.ratio("mean_bound", worst);
            // up to four operands: the result must be the correctly rounded quotient of *some* single-precision sum of
            // the operands (every order and every bracketing is accepted; the order of the additions is not pinned,
            // the division is)
            if k <= 3 {
                fn sums(v: &[f32]) -> Vec<f32> {
                    // all values obtainable by adding the operands in any order with any bracketing
                    if v.len() == 1 {
                        return vec![v[0]];
                    }
                    let m = v.len();
                    let mut out = Vec::new();
                    // split into two non-empty subsets (left contains element 0 to halve the work)
                    for mask in 0u32..(1 << (m - 1)) {
                        let mut l = vec![v[0]];
                        let mut r = Vec::new();
                        for j in 1..m {
                            if mask >> (j - 1) & 1 == 1 { l.push(v[j]) } else { r.push(v[j]) }
                        }
                        if r.is_empty() {
                            continue;
                        }
                        for a in sums(&l) {
                            for b in sums(&r) {
                                out.push(a + b);
                            }
                        }
                    }
                    out.sort_by(|a, b| a.total_cmp(b));
                    out.dedup_by(|a, b| a.to_bits() == b.to_bits());
                    out
                }
                let div = k as f32 + 1.0;
                for i in 0..n.min(16) {
                    let mut ops = vec![a[i]];
                    ops.extend(others_data.iter().map(|d| d[i]));
                    let cands = sums(&ops);
                    let ok = cands.iter().any(|s| (s / div).to_bits() == got[i].to_bits() || (s / div == 0.0 && got[i] == 0.0));
                    ensure!(ok, "mean_inplace k={} element {}: got {:e} (bits {:08x}); no single-precision sum of the operands {:?}, in any order or bracketing, divided by {} rounds to it (nearest candidate {:e})", k, i, got[i], got[i].to_bits(), ops, div, cands.iter().map(|s| s / div).fold(f32::NAN, |b, c| if b.is_nan() || (c - got[i]).abs() < (b - got[i]).abs() { c } else { b }));
                }
                ev.class("mean: quotient pinned (<= 4 operands)");
            }
            Ok(())
        }
        Op::Outer => {
            let (r, c) = (case.dims[0], *case.dims.get(1).unwrap_or(&1));
            let (u, v) = (&a[..r], &b[..c.min(b.len())]);
            if v.len() != c {
                return Ok(());
            }
            let o = catch(|| Tensor::single(u.to_vec()).product(&Tensor::single(v.to_vec()))).map_err(|p| Fail::new(format!("outer product panicked: {p}")))?;
            ensure!(o.shape == Shape::Double(r, c) && tens::consistent(&o), "outer product shape {:?} != {}x{}", o.shape, r, c);
            let want: Vec<f32> = u.iter().flat_map(|p| v.iter().map(move |q| p * q)).collect();
            compare_bits(&tens::flat(&o), &want, "outer product")
        }
        Op::Dot => {
            let (r, c) = (case.dims[0], *case.dims.get(1).unwrap_or(&1));
            let mdata = contents(r * c, case.class_a.min(3), case.seed);
            let v = contents(c, case.class_b.min(3), case.seed ^ 99);
            let m = tens::build(&[r, c], &mdata);
            let o = catch(|| m.dot(&Tensor::single(v.clone()))).map_err(|p| Fail::new(format!("dot panicked: {p}")))?;
            ensure!(o.shape == Shape::Single(r) && tens::consistent(&o), "dot shape {:?} != {}", o.shape, r);
            let got = tens::flat(&o);
            let mut worst = 0.0f64;
            for i in 0..r {
                let mut exact = 0.0f64;
                let mut mag = 0.0f64;
                for j in 0..c {
                    exact += mdata[i * c + j] as f64 * v[j] as f64;
                    mag += (mdata[i * c + j] as f64 * v[j] as f64).abs();
                }
                let tol = 4.0 * (c as f64 + 1.0) * EPS32 * mag + 1e-40;
                let err = (got[i] as f64 - exact).abs();
                worst = worst.max(err / tol);
                ensure!(err <= tol, "dot: row {}: got {:e}, exact {:e}", i, got[i], exact);
            }
            ev.ratio("dot_bound", worst);
            Ok(())
        }
        Op::Transpose => {
            let (r, c) = (case.dims[0], *case.dims.get(1).unwrap_or(&1));
            let mdata = contents(r * c, case.class_a, case.seed);
            let m = tens::build(&[r, c], &mdata);
            let tr = catch(|| m.transpose()).map_err(|p| Fail::new(format!("transpose panicked: {p}")))?;
            ensure!(tr.shape == Shape::Double(c, r) && tens::consistent(&tr), "transpose shape {:?} != {}x{}", tr.shape, c, r);
            let f = tens::flat(&tr);
            for i in 0..r {
                for j in 0..c {
                    ensure!(f[j * r + i].to_bits() == mdata[i * c + j].to_bits(), "transpose: [{}][{}] != source [{}][{}]", j, i, i, j);
                }
            }
            let back = tr.transpose();
            compare_bits(&tens::flat(&back), &mdata, "transpose involution")?;
            ensure!(back.shape == Shape::Double(r, c), "transpose involution shape");
            Ok(())
        }
        Op::Clamp => {
            let (lo, hi) = case.clamp;
            let x = tens::build(&case.dims, &a);
            let sh = x.shape.clone();
            let y = catch(|| x.clamp(lo, hi)).map_err(|p| Fail::new(format!("clamp({lo},{hi}) panicked: {p}")))?;
            same_shape(&y, &sh, "clamp")?;
            let got = tens::flat(&y);
            for (i, (g, v)) in got.iter().zip(a.iter()).enumerate() {
                let want = if *v < lo { lo } else if *v > hi { hi } else { *v };
                ensure!(g.to_bits() == want.to_bits(), "clamp({:e},{:e}) element {}: {:e} -> {:e}, expected {:e}", lo, hi, i, v, g, want);
                ensure!(*g >= lo && *g <= hi, "clamp result {:e} outside [{:e},{:e}]", g, lo, hi);
            }
            Ok(())
        }
        Op::Mismatch => {
            // build an operand whose shape differs
            let mut odims = case.dims.clone();
            let other: Tensor = match case.mismatch_kind {
                0 => {
                    // same rank, other extent on one axis
                    let ax = (case.seed as usize) % odims.len();
                    odims[ax] += 1 + (case.seed as usize >> 8) % 2;
                    tens::build(&odims, &contents(count(&odims), 1, case.seed))
                }
                1 => {
                    // other rank with the same element count where possible
                    let nn = count(&odims);
                    let nd: Vec<usize> = if odims.len() == 1 { vec![1, nn] } else { vec![nn] };
                    tens::build(&nd, &contents(nn, 1, case.seed))
                }
                _ => {
                    // same element count, permuted extents (only a mismatch if they differ)
                    let mut nd = odims.clone();
                    nd.reverse();
                    if nd == odims {
                        nd[0] += 1;
                    }
                    tens::build(&nd, &contents(count(&nd), 1, case.seed))
                }
            };
            ev.class(format!("mismatch:{:?}:kind{}", case.mismatch_op, case.mismatch_kind));
            if case.nested == 1 && case.mismatch_op == Op::Add {
                // nested lists with one differing member
                let mut x = make_list(case, 1, 1, false);
                let mut ys: Vec<Tensor> = (0..case.members).map(|j| tens::build(&case.dims, &contents(n, 1, j as u32))).collect();
                let which = (case.seed as usize >> 4) % case.members;
                ys[which] = other.clone();
                let y = Tensor::nested(ys);
                let r = catch(|| {
                    x.add_inplace(&y);
                });
                ensure!(r.is_err(), "add_inplace accepted nested lists whose member {} has shape {:?} vs {:?}", which, other.shape, tens::shape_of(&case.dims));
                return Ok(());
            }
            let mut x = tens::build(&case.dims, &a);
            let before = tens::flat(&x);
            let r = catch(|| match case.mismatch_op {
                Op::Add => x.add_inplace(&other),
                Op::Sub => x.sub_inplace(&other),
                Op::Mul => x.mul_inplace(&other),
                Op::Hadamard => x.hadamard(&other, 1.0),
                _ => {
                    let good = tens::build(&case.dims, &b);
                    x.mean_inplace(&vec![&good, &other])
                }
            });
            match r {
                Err(_) => Ok(()),
                Ok(()) => fail!(
                    "{:?} accepted operands of different shapes {:?} and {:?} (left operand afterwards {}changed)",
                    case.mismatch_op, tens::shape_of(&case.dims), other.shape,
                    if tens::first_bit_diff(&before, &tens::flat(&x)).is_some() { "" } else { "un" }
                ),
            }
        }
    }
}

pub struct C15;

impl Prop for C15 {
    fn id(&self) -> &'static str {
        "C15"
    }
    fn tape_len(&self, _t: Tier) -> usize {
        32
    }
    fn cases(&self, t: Tier) -> usize {
        t.pick(2_000_000, 200_000_000)
    }
    fn rule(&self) -> String {
        "tape-decoded (operation in {add, sub, mul, scaled Hadamard, hadamard3d, scalar division, mean over k=1..5, outer product, matrix-vector product, transpose, clamp, shape-mismatch refusal} x rank 1..4 (nested / optional-nested lists for add and scalar division, one nested list in four two levels deep) x extents 1..4 per axis (1/6 of the cases: a wide axis of 20..300; 1/12: a matrix with both extents in 17..70) x content classes (dyadic, O(1), mixed magnitudes 2^-20..2^20, signed zeros + subnormals, 1e18) x scalars). Oracle: scalar IEEE reference per element (bitwise for add/sub/mul/div/outer/transpose/clamp, 2 ulp of the exact product for Hadamard, summation bound for mean and dot; for means of up to four operands additionally: the result is the correctly rounded quotient of some single-precision sum of the operands, any order and bracketing), shape field unchanged and consistent with the data, mismatched operands (other extent / other rank / permuted extents / nested list with one differing member) must panic. Non-trivial: rank >= 2 with >= 2 axes > 1. Distinct = (operation, rank, extents, nesting, mismatch kind, k).".into()
    }
    fn run_case(&self, tape: &[u32], ev: &mut CaseEv) -> CheckResult {
        check(&decode(tape), ev)
    }
    fn describe(&self, tape: &[u32]) -> Value {
        json!(format!("{:?}", decode(tape)))
    }
}

pub fn run(eng: &Engine, replay_path: Option<&str>) -> i32 {
    let p = C15;
    if let Some(path) = replay_path {
        return replay(&p, eng, path);
    }
    standard_run(&p, eng)
}
