//! Shared exploration engine: proptest-driven tape generation on worker threads, shrinking,
//! replay files, evidence accounting, known-finding bookkeeping.

use proptest::prelude::*;
use proptest::test_runner::{Config, RngSeed, TestCaseError, TestError, TestRunner};
use serde_json::{json, Value};
use std::collections::{BTreeMap, HashSet};
use std::panic::{catch_unwind, AssertUnwindSafe};
use std::sync::atomic::{AtomicBool, AtomicUsize, Ordering};
use std::sync::Mutex;
use std::time::Instant;

#[derive(Clone, Copy, PartialEq, Eq, Debug)]
pub enum Tier {
    Quick,
    Thorough,
}

impl Tier {
    pub fn name(&self) -> &'static str {
        match self {
            Tier::Quick => "quick",
            Tier::Thorough => "thorough",
        }
    }
    pub fn pick<T>(&self, quick: T, thorough: T) -> T {
        match self {
            Tier::Quick => quick,
            Tier::Thorough => thorough,
        }
    }
}

/// A failed assertion. `finding` names the known-finding signature (see known_findings.json)
/// that the *decoded case* matches, if any; the engine decides whether that signature is
/// currently listed as `known` (then the case is counted as excluded) or not (violation).
#[derive(Debug, Clone)]
pub struct Fail {
    pub msg: String,
    pub finding: Option<&'static str>,
}

impl Fail {
    pub fn new(msg: impl Into<String>) -> Self {
        Fail { msg: msg.into(), finding: None }
    }
    pub fn known(msg: impl Into<String>, finding: &'static str) -> Self {
        Fail { msg: msg.into(), finding: Some(finding) }
    }
}

pub type CheckResult = Result<(), Fail>;

#[macro_export]
macro_rules! fail {
    ($($arg:tt)*) => { return Err($crate::engine::Fail::new(format!($($arg)*))) };
}

#[macro_export]
macro_rules! ensure {
    ($cond:expr, $($arg:tt)*) => { if !($cond) { return Err($crate::engine::Fail::new(format!($($arg)*))); } };
}

/// Per-case record filled in by a property's `run_case`.
#[derive(Default)]
pub struct CaseEv {
    pub classes: Vec<String>,
    pub nontrivial: bool,
    /// Hash of the case *signature* (architecture / configuration descriptor, not the raw tape).
    pub sig: u64,
    pub ratios: Vec<(&'static str, f64)>,
    pub discard: Option<&'static str>,
    /// Known-finding signatures this case matches and whose covered assertions were skipped.
    pub excluded: Vec<&'static str>,
    /// Extra unit counts (e.g. elements compared).
    pub units: u64,
}

impl CaseEv {
    pub fn class(&mut self, c: impl Into<String>) {
        self.classes.push(c.into());
    }
    pub fn ratio(&mut self, name: &'static str, r: f64) {
        self.ratios.push((name, r));
    }
    pub fn set_sig<T: std::hash::Hash>(&mut self, t: &T) {
        use std::hash::Hasher;
        let mut h = std::collections::hash_map::DefaultHasher::new();
        t.hash(&mut h);
        self.sig = h.finish();
    }
}

pub trait Prop: Sync {
    fn id(&self) -> &'static str;
    /// Maximum tape length.
    fn tape_len(&self, tier: Tier) -> usize;
    fn cases(&self, tier: Tier) -> usize;
    fn workers(&self, _tier: Tier) -> usize {
        16
    }
    /// If Some(k): every case runs inside a worker-private rayon pool with k threads (keeps the
    /// library's own parallel sections from contending on the global pool).
    fn rayon_threads(&self) -> Option<usize> {
        None
    }
    fn rule(&self) -> String;
    fn assumptions(&self) -> Vec<String> {
        Vec::new()
    }
    /// Decode the tape and check the property on the decoded case.
    fn run_case(&self, tape: &[u32], ev: &mut CaseEv) -> CheckResult;
    /// Pretty decoded case for replay files and evidence samples.
    fn describe(&self, tape: &[u32]) -> Value;
}

#[derive(Default)]
pub struct Evidence {
    pub evaluations: u64,
    pub units: u64,
    pub nontrivial_total: u64,
    pub distinct: HashSet<u64>,
    pub classes: BTreeMap<String, u64>,
    pub discards: BTreeMap<String, u64>,
    pub excluded: BTreeMap<String, u64>,
    pub worst: BTreeMap<String, f64>,
    pub samples: Vec<Value>,
    pub notes: Vec<String>,
    pub extra: BTreeMap<String, Value>,
    pub exhaustive: bool,
}

impl Evidence {
    pub fn merge_case(&mut self, ev: &CaseEv) -> bool {
        self.evaluations += 1;
        self.units += ev.units;
        for c in &ev.classes {
            *self.classes.entry(c.clone()).or_insert(0) += 1;
        }
        if let Some(d) = ev.discard {
            *self.discards.entry(d.to_string()).or_insert(0) += 1;
        }
        for e in &ev.excluded {
            *self.excluded.entry(e.to_string()).or_insert(0) += 1;
        }
        for (n, r) in &ev.ratios {
            let w = self.worst.entry(n.to_string()).or_insert(0.0);
            if *r > *w {
                *w = *r;
            }
        }
        if ev.nontrivial && ev.discard.is_none() {
            self.nontrivial_total += 1;
            return self.distinct.insert(ev.sig);
        }
        false
    }
}

#[derive(Clone)]
pub struct Violation {
    pub msg: String,
    pub tape: Vec<u32>,
    pub replay: String,
}

pub struct Findings {
    entries: Vec<Value>,
}

impl Findings {
    pub fn load(verif_dir: &str) -> Self {
        let path = format!("{}/known_findings.json", verif_dir);
        let entries = std::fs::read_to_string(&path)
            .ok()
            .and_then(|s| serde_json::from_str::<Value>(&s).ok())
            .and_then(|v| v.get("findings").cloned())
            .and_then(|v| v.as_array().cloned())
            .unwrap_or_default();
        Findings { entries }
    }
    /// Is `sig` listed with status "known" for this property?
    pub fn is_known(&self, prop: &str, sig: &str) -> bool {
        self.entries.iter().any(|e| {
            e["property"].as_str() == Some(prop)
                && e["signature"].as_str() == Some(sig)
                && e["status"].as_str() == Some("known")
        })
    }
    pub fn known_for(&self, prop: &str) -> Vec<Value> {
        self.entries
            .iter()
            .filter(|e| e["property"].as_str() == Some(prop) && e["status"].as_str() == Some("known"))
            .cloned()
            .collect()
    }
}

pub struct Engine {
    pub prop_id: String,
    pub tier: Tier,
    pub seed: u64,
    pub verif_dir: String,
    pub out_dir: String,
    pub evidence: Mutex<Evidence>,
    pub violations: Mutex<Vec<Violation>>,
    pub findings: Findings,
    pub start: Instant,
    pub known_lines: Mutex<Vec<String>>,
}

pub fn panic_message(p: Box<dyn std::any::Any + Send>) -> String {
    if let Some(s) = p.downcast_ref::<&str>() {
        s.to_string()
    } else if let Some(s) = p.downcast_ref::<String>() {
        s.clone()
    } else {
        "<non-string panic payload>".to_string()
    }
}

/// Run `f`, turning a panic into `Err(message)`.
pub fn catch<T>(f: impl FnOnce() -> T) -> Result<T, String> {
    catch_unwind(AssertUnwindSafe(f)).map_err(panic_message)
}

fn mix_seed(seed: u64, worker: u64, salt: u64) -> u64 {
    let mut m = crate::tape::Mix::new(seed ^ (worker << 48) ^ salt.wrapping_mul(0xA076_1D64_78BD_642F));
    m.next_u64()
}

impl Engine {
    pub fn new(prop_id: &str, tier: Tier, seed: u64, verif_dir: &str, out_dir: &str) -> Self {
        Engine {
            prop_id: prop_id.to_string(),
            tier,
            seed,
            verif_dir: verif_dir.to_string(),
            out_dir: out_dir.to_string(),
            evidence: Mutex::new(Evidence::default()),
            violations: Mutex::new(Vec::new()),
            findings: Findings::load(verif_dir),
            start: Instant::now(),
            known_lines: Mutex::new(Vec::new()),
        }
    }

    /// Evaluate one tape outside proptest (replay / regression / enumeration).
    /// Returns Ok(true) if passed, Ok(false) if it failed on a *known* finding.
    pub fn eval_tape<P: Prop + ?Sized>(&self, p: &P, tape: &[u32], ev: &mut CaseEv) -> Result<bool, String> {
        let r = catch_unwind(AssertUnwindSafe(|| p.run_case(tape, ev)));
        match r {
            Ok(Ok(())) => Ok(true),
            Ok(Err(f)) => {
                if let Some(sig) = f.finding {
                    if self.findings.is_known(p.id(), sig) {
                        ev.excluded.push(sig);
                        return Ok(false);
                    }
                }
                Err(f.msg)
            }
            Err(pan) => Err(format!("uncaught panic: {}", panic_message(pan))),
        }
    }

    pub fn write_replay<P: Prop + ?Sized>(&self, p: &P, tape: &[u32], msg: &str, tag: &str) -> String {
        let dir = format!("{}/replays/found", self.out_dir);
        let _ = std::fs::create_dir_all(&dir);
        let path = format!("{}/{}_{}_s{}_{}.json", dir, p.id(), self.tier.name(), self.seed, tag);
        let decoded = catch(|| p.describe(tape)).unwrap_or(json!("<describe panicked>"));
        let v = json!({
            "property": p.id(),
            "tier": self.tier.name(),
            "seed": self.seed,
            "tape": tape,
            "decoded": decoded,
            "message": msg,
        });
        let _ = std::fs::write(&path, serde_json::to_string_pretty(&v).unwrap());
        path
    }

    pub fn report_violation<P: Prop + ?Sized>(&self, p: &P, tape: &[u32], msg: &str, tag: &str) {
        {
            // one line per distinct failure message (16 workers usually shrink to the same case)
            let v = self.violations.lock().unwrap();
            if v.iter().any(|x| x.msg == msg) || v.len() >= 8 {
                drop(v);
                self.violations.lock().unwrap().push(Violation { msg: msg.to_string(), tape: tape.to_vec(), replay: String::new() });
                return;
            }
        }
        let path = self.write_replay(p, tape, msg, tag);
        println!("VIOLATION property={} replay={}", p.id(), path);
        println!("  detail: {}", msg.lines().next().unwrap_or(""));
        self.violations.lock().unwrap().push(Violation { msg: msg.to_string(), tape: tape.to_vec(), replay: path });
    }

    /// Run committed regression replays (`replays/regress/<ID>_*.json`) through the same check.
    pub fn run_regressions<P: Prop + ?Sized>(&self, p: &P) {
        if std::env::var("NVERIF_SKIP_REGRESS").is_ok() {
            return;
        }
        let dir = format!("{}/replays/regress", self.verif_dir);
        let mut files: Vec<String> = std::fs::read_dir(&dir)
            .map(|rd| {
                rd.filter_map(|e| e.ok())
                    .map(|e| e.file_name().to_string_lossy().to_string())
                    .filter(|n| n.starts_with(&format!("{}_", p.id())) && n.ends_with(".json"))
                    .collect()
            })
            .unwrap_or_default();
        files.sort();
        let mut n = 0u64;
        for f in files {
            let path = format!("{}/{}", dir, f);
            let Some(tape) = read_tape(&path) else { continue };
            let mut ev = CaseEv::default();
            match self.eval_tape(p, &tape, &mut ev) {
                Ok(_) => {
                    let mut e = self.evidence.lock().unwrap();
                    e.merge_case(&ev);
                }
                Err(msg) => {
                    println!("VIOLATION property={} replay={}", p.id(), path);
                    println!("  detail: regression replay failed: {}", msg.lines().next().unwrap_or(""));
                    self.violations.lock().unwrap().push(Violation { msg, tape, replay: path });
                }
            }
            n += 1;
        }
        self.evidence.lock().unwrap().extra.insert("regression_replays_run".into(), json!(n));
    }

    /// For every finding listed as `known` for this property: print the KNOWN-FINDING line and
    /// re-run its pinned reproduction (it is expected to still fail on the matching signature).
    pub fn report_known<P: Prop + ?Sized>(&self, p: &P) {
        for e in self.findings.known_for(p.id()) {
            let what = e["what"].as_str().unwrap_or("");
            let sig = e["signature"].as_str().unwrap_or("");
            let mut status = "pinned reproduction not run";
            if let Some(rp) = e["replay"].as_str() {
                let path = format!("{}/{}", self.verif_dir, rp);
                if let Some(tape) = read_tape(&path) {
                    let mut ev = CaseEv::default();
                    status = match self.eval_tape(p, &tape, &mut ev) {
                        Ok(false) => "pinned reproduction still fails",
                        Ok(true) => "pinned reproduction no longer fails",
                        Err(_) => "pinned reproduction fails outside the listed signature",
                    };
                }
            }
            let line = format!("KNOWN-FINDING: property={} [{}] {} ({})", p.id(), sig, what, status);
            println!("{}", line);
            self.known_lines.lock().unwrap().push(line);
        }
    }

    /// Proptest-driven exploration.
    pub fn explore<P: Prop>(&self, p: &P) {
        self.explore_n(p, p.cases(self.tier), 0)
    }

    pub fn explore_n<P: Prop>(&self, p: &P, cases: usize, salt: u64) {
        let workers = p.workers(self.tier).max(1);
        let max_len = p.tape_len(self.tier);
        let per = (cases + workers - 1) / workers;
        let sample_budget = AtomicUsize::new(0);
        std::thread::scope(|s| {
            for w in 0..workers {
                let sample_budget = &sample_budget;
                s.spawn(move || {
                    let seed = mix_seed(self.seed, w as u64, salt);
                    let cfg = Config {
                        cases: per as u32,
                        failure_persistence: None,
                        rng_seed: RngSeed::Fixed(seed),
                        max_shrink_iters: 4000,
                        max_global_rejects: 1 << 30,
                        ..Config::default()
                    };
                    let pool = p.rayon_threads().map(|k| rayon::ThreadPoolBuilder::new().num_threads(k).build().expect("rayon pool"));
                    let mut runner = TestRunner::new(cfg);
                    let strat = proptest::collection::vec(any::<u32>(), (max_len / 3)..=max_len);
                    let failed = AtomicBool::new(false);
                    let mut local = Evidence::default();
                    let local_cell = std::cell::RefCell::new(&mut local);
                    let result = runner.run(&strat, |tape| {
                        let mut ev = CaseEv::default();
                        let r = match &pool {
                            Some(pl) => pl.install(|| self.eval_tape(p, &tape, &mut ev)),
                            None => self.eval_tape(p, &tape, &mut ev),
                        };
                        let counting = !failed.load(Ordering::Relaxed);
                        match r {
                            Ok(_) => {
                                if counting {
                                    let mut l = local_cell.borrow_mut();
                                    let new = l.merge_case(&ev);
                                    if new {
                                        let k = l.distinct.len();
                                        // sample at 1, 7, 49, ... per worker, bounded globally
                                        let take = k == 1 || k == 7 || k == 49 || k == 343;
                                        if take && sample_budget.fetch_add(1, Ordering::Relaxed) < 6 {
                                            if let Ok(d) = catch(|| p.describe(&tape)) {
                                                l.samples.push(d);
                                            }
                                        }
                                    }
                                }
                                Ok(())
                            }
                            Err(msg) => {
                                failed.store(true, Ordering::Relaxed);
                                Err(TestCaseError::fail(msg))
                            }
                        }
                    });
                    drop(local_cell);
                    // merge local evidence
                    {
                        let mut g = self.evidence.lock().unwrap();
                        g.evaluations += local.evaluations;
                        g.units += local.units;
                        g.nontrivial_total += local.nontrivial_total;
                        g.distinct.extend(local.distinct.iter().copied());
                        for (k, v) in local.classes {
                            *g.classes.entry(k).or_insert(0) += v;
                        }
                        for (k, v) in local.discards {
                            *g.discards.entry(k).or_insert(0) += v;
                        }
                        for (k, v) in local.excluded {
                            *g.excluded.entry(k).or_insert(0) += v;
                        }
                        for (k, v) in local.worst {
                            let w = g.worst.entry(k).or_insert(0.0);
                            if v > *w {
                                *w = v;
                            }
                        }
                        for sm in local.samples {
                            if g.samples.len() < 6 {
                                g.samples.push(sm);
                            }
                        }
                    }
                    match result {
                        Ok(()) => {}
                        Err(TestError::Fail(reason, tape)) => {
                            // re-evaluate the shrunk tape for the exact message
                            let mut ev = CaseEv::default();
                            let msg = match self.eval_tape(p, &tape, &mut ev) {
                                Err(m) => m,
                                Ok(_) => format!("{} (shrunk case did not reproduce: flaky?)", reason),
                            };
                            self.report_violation(p, &tape, &msg, &format!("w{}", w));
                        }
                        Err(TestError::Abort(reason)) => {
                            let mut g = self.evidence.lock().unwrap();
                            g.notes.push(format!("worker {} aborted: {}", w, reason));
                        }
                    }
                });
            }
        });
    }

    pub fn finish<P: Prop + ?Sized>(&self, p: &P) -> i32 {
        let e = self.evidence.lock().unwrap();
        let v = self.violations.lock().unwrap();
        let mut samples = e.samples.clone();
        if samples.is_empty() {
            samples.push(json!("no non-trivial sample recorded"));
        }
        let mut coverage = json!({
            "evaluations": e.evaluations,
            "distinct_nontrivial": e.distinct.len(),
            "nontrivial_total": e.nontrivial_total,
            "rule": p.rule(),
            "samples": samples,
            "classes": e.classes,
            "discards": e.discards,
            "excluded_by_known_finding": e.excluded,
            "worst_error_over_tolerance": e.worst,
            "units_compared": e.units,
            "exhaustive": e.exhaustive,
            "notes": e.notes,
            "known_finding_lines": *self.known_lines.lock().unwrap(),
        });
        for (k, val) in e.extra.iter() {
            coverage[k] = val.clone();
        }
        let mut assumptions = p.assumptions();
        assumptions.push("harness and library built with opt-level 2, overflow-checks and debug-assertions ON (the arithmetic a default `cargo build`/`cargo test` gives a user)".into());
        assumptions.push("library built from /repo's working tree with the cargo feature `verif` (additive hooks only)".into());
        let out = json!({
            "property_id": p.id(),
            "tier": self.tier.name(),
            "seed": self.seed,
            "level": "exploration",
            "coverage": coverage,
            "assumptions": assumptions,
            "wall_s": self.start.elapsed().as_secs_f64(),
            "violations": v.len(),
        });
        let dir = format!("{}/evidence", self.out_dir);
        let _ = std::fs::create_dir_all(&dir);
        let path = format!("{}/{}.json", dir, p.id());
        std::fs::write(&path, serde_json::to_string_pretty(&out).unwrap()).expect("write evidence");
        println!(
            "SUMMARY property={} tier={} seed={} evaluations={} distinct_nontrivial={} violations={} wall_s={:.1}",
            p.id(),
            self.tier.name(),
            self.seed,
            e.evaluations,
            e.distinct.len(),
            v.len(),
            self.start.elapsed().as_secs_f64()
        );
        let discard_total: u64 = e.discards.values().sum();
        if e.evaluations > 0 && discard_total * 10 > e.evaluations * 3 {
            println!("NOTE discard rate {}/{} above 30% (generator issue, not a result)", discard_total, e.evaluations);
        }
        if v.is_empty() {
            0
        } else {
            1
        }
    }
}

pub fn read_tape(path: &str) -> Option<Vec<u32>> {
    let s = std::fs::read_to_string(path).ok()?;
    let v: Value = serde_json::from_str(&s).ok()?;
    let arr = v.get("tape")?.as_array()?;
    Some(arr.iter().map(|x| x.as_u64().unwrap_or(0) as u32).collect())
}

/// Standard driver for a property that only uses proptest exploration.
pub fn standard_run<P: Prop>(p: &P, eng: &Engine) -> i32 {
    eng.run_regressions(p);
    eng.report_known(p);
    eng.explore(p);
    eng.finish(p)
}

/// Replay one file in strict mode.
pub fn replay<P: Prop + ?Sized>(p: &P, eng: &Engine, path: &str) -> i32 {
    let Some(tape) = read_tape(path) else {
        println!("ERROR cannot read tape from {}", path);
        return 2;
    };
    let mut ev = CaseEv::default();
    println!("decoded: {}", serde_json::to_string(&catch(|| p.describe(&tape)).unwrap_or(json!(null))).unwrap());
    match eng.eval_tape(p, &tape, &mut ev) {
        Ok(true) => {
            println!("REPLAY property={} result=pass", p.id());
            0
        }
        Ok(false) => {
            println!("REPLAY property={} result=known-finding {:?}", p.id(), ev.excluded);
            0
        }
        Err(msg) => {
            println!("VIOLATION property={} replay={}", p.id(), path);
            println!("  detail: {}", msg);
            1
        }
    }
}
