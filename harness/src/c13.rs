//! C13 — early stopping and the returned histories obey their contract.
//!
//! The validation-loss trajectory is steered through exactly representable training dynamics: a
//! linear 1->1 (thorough: also 2->1) model with a known start weight, dyadic data and a dyadic
//! learning rate, plain SGD. Falling, rising, fall-then-rise, oscillating, diverging and - because
//! all arithmetic is exact - plateau trajectories with bit-equal consecutive losses occur.

use crate::engine::*;
use crate::net::*;
use crate::refmodel::{ActK, ObjK};
use crate::tape::Tape;
use crate::tens;
use crate::{ensure, fail};
use neurons::optimizer;
use neurons::tensor::Tensor;
use serde_json::{json, Value};

#[derive(Debug, Clone)]
struct Case {
    inputs: usize, // 1 or 2
    w0: Vec<f32>,
    obj: ObjK,
    lr: f32,
    train: Vec<(Vec<f32>, f32)>,
    val: Vec<(Vec<f32>, f32)>,
    with_val: bool,
    tol: i32,
    budget: i32,
    batch: usize,
    print: Option<i32>,
    /// an earlier learn() call on the same network object: (epochs, with validation data); its own early stopping
    /// is disabled (tolerance 1000), the contract is checked on the call that follows
    pre: Option<(i32, bool)>,
}

fn dy(t: &mut Tape, range: i64, bits: u32) -> f32 {
    t.int(-range, range) as f32 / (1u64 << bits) as f32
}

fn decode(tape: &[u32], tier: Tier) -> Case {
    let mut t = Tape::new(tape);
    let inputs = if tier == Tier::Thorough && t.chance(1, 4) { 2 } else { 1 };
    let w0: Vec<f32> = (0..inputs).map(|_| dy(&mut t, 16, 2)).collect();
    let obj = if t.bool() { ObjK::MSE } else { ObjK::AE };
    let lr = [1.0f32, 0.5, 0.25, 0.125, 2.0, 0.0625][t.pick(6)];
    // training targets follow y = a.x, validation targets y = b.x (+ offset): b between w0 and a gives fall-then-rise
    let a: Vec<f32> = (0..inputs).map(|_| dy(&mut t, 16, 2)).collect();
    let b: Vec<f32> = (0..inputs).map(|_| dy(&mut t, 16, 2)).collect();
    let ntrain = t.usize(1, 3);
    let nval = t.usize(1, 3);
    let point = |t: &mut Tape, coef: &Vec<f32>, off: f32| -> (Vec<f32>, f32) {
        let x: Vec<f32> = (0..inputs).map(|_| [1.0f32, -1.0, 0.5, 2.0, 0.25][t.pick(5)]).collect();
        let y: f32 = x.iter().zip(coef.iter()).map(|(p, q)| p * q).sum::<f32>() + off;
        (x, y)
    };
    let train: Vec<(Vec<f32>, f32)> = (0..ntrain).map(|_| point(&mut t, &a, 0.0)).collect();
    let voff = if t.chance(1, 3) { dy(&mut t, 8, 2) } else { 0.0 };
    let val: Vec<(Vec<f32>, f32)> = (0..nval).map(|_| point(&mut t, &b, voff)).collect();
    let with_val = !t.chance(1, 6);
    let tol = t.usize(1, 6) as i32;
    let budget = t.usize(1, 14) as i32;
    let batch = t.usize(1, ntrain + 1);
    let print = [None, None, None, None, None, None, None, None, Some(1), Some(2), Some(3), Some(100)][t.pick(12)];
    let mut case = Case { inputs, w0, obj, lr, train, val, with_val, tol, budget, batch, print, pre: None };
    // one case in ten: validation targets placed symmetrically around the weight's path (AE): the validation
    // loss |w - c - r| + |w - c + r| is constant while w moves inside [c - r, c + r], but the accuracy changes
    if inputs == 1 && t.chance(1, 10) {
        let c = t.int(-4, 4) as f32 * 0.25;
        let r = t.int(1, 8) as f32 * 0.25;
        case.obj = ObjK::AE;
        case.val = vec![(vec![1.0], c + r), (vec![1.0], c - r)];
        case.with_val = true;
    }
    // one case in eight: losses that creep by single units in the last place (a real, strict rise):
    // AE training towards a far target with learning rate 1 moves the weight by exactly 1 per epoch;
    // a validation input of 2^-k makes the validation loss |w * 2^-k - vy| move by one ulp per epoch.
    if inputs == 1 && t.chance(1, 8) {
        let k = [23i32, 24, 26, 30][t.pick(4)];
        let dir = if t.bool() { 1000.0 } else { -1000.0 };
        let vy = [-1.0f32, -0.5, 1.0, 0.0][t.pick(4)];
        case.w0 = vec![t.int(-3, 3) as f32];
        case.obj = ObjK::AE;
        case.lr = 1.0;
        case.train = vec![(vec![1.0], dir)];
        case.val = vec![(vec![2f32.powi(-k)], vy)];
        case.batch = 1;
        case.with_val = true;
    }
    // one case in six: the network has already been through a learn() call (nothing of that call - epoch counters,
    // histories - may count towards this one)
    if t.chance(1, 6) {
        case.pre = Some((t.usize(1, 7) as i32, t.bool()));
    }
    // one case in eight: KL-divergence on predictions in (0, 1): once the prediction has passed the validation target
    // the validation loss t ln(t / p) is negative and keeps falling (the contract is about the recorded numbers, whatever
    // their sign)
    if inputs == 1 && t.chance(1, 8) {
        case.obj = ObjK::KL;
        case.w0 = vec![t.usize(1, 4) as f32 * 0.25];
        case.lr = [0.0625f32, 0.125, 0.03125][t.pick(3)];
        let pts = |t: &mut Tape, ys: &[f32]| -> Vec<(Vec<f32>, f32)> { (0..t.usize(1, 3)).map(|_| (vec![[1.0f32, 0.5][t.pick(2)]], ys[t.pick(ys.len())])).collect() };
        case.train = pts(&mut t, &[0.25, 0.5, 0.75]);
        case.val = pts(&mut t, &[0.125, 0.25, 0.5]);
        case.batch = t.usize(1, case.train.len() + 1);
        case.with_val = true;
    }
    case
}

fn make_net(case: &Case) -> Result<neurons::network::Network, String> {
    let spec = NetSpec { input: vec![case.inputs], layers: vec![LayerSpec::Dense { out: 1, act: ActK::Linear, bias: false, dropout: None }] };
    let mut net = build(&spec)?;
    let ps = collect_params(&net);
    let w = tens::build(&[1, case.inputs], &case.w0);
    apply_params(&mut net, &[(ps[0].0, w)]);
    net.set_objective(lib_obj(case.obj), None);
    net.set_optimizer(optimizer::SGD::create(case.lr, None));
    Ok(net)
}

fn stop_at(v: &[f32], e: usize, tol: usize) -> bool {
    // after e recorded epochs: more than `tol` epochs ran and the last `tol` losses are strictly increasing
    if e <= tol || e > v.len() {
        return false;
    }
    let w = &v[e - tol..e];
    w.windows(2).all(|p| p[0] < p[1])
}

fn classify(v: &[f32]) -> &'static str {
    if v.len() < 2 {
        return "single";
    }
    let up = v.windows(2).filter(|p| p[0] < p[1]).count();
    let down = v.windows(2).filter(|p| p[0] > p[1]).count();
    let eq = v.windows(2).filter(|p| p[0] == p[1]).count();
    if eq == v.len() - 1 {
        "plateau(all equal)"
    } else if eq > 0 {
        "has-plateau"
    } else if up == 0 {
        "falling"
    } else if down == 0 {
        "rising"
    } else {
        // first falls then rises?
        let first_up = v.windows(2).position(|p| p[0] < p[1]).unwrap();
        if v[first_up..].windows(2).all(|p| p[0] < p[1]) {
            "fall-then-rise"
        } else {
            "oscillating"
        }
    }
}

fn check(case: &Case, ev: &mut CaseEv) -> CheckResult {
    let mut net = make_net(case).map_err(Fail::new)?;
    let xs: Vec<Tensor> = case.train.iter().map(|(x, _)| Tensor::single(x.clone())).collect();
    let ys: Vec<Tensor> = case.train.iter().map(|(_, y)| Tensor::single(vec![*y])).collect();
    let vx: Vec<Tensor> = case.val.iter().map(|(x, _)| Tensor::single(x.clone())).collect();
    let vy: Vec<Tensor> = case.val.iter().map(|(_, y)| Tensor::single(vec![*y])).collect();
    let (xr, yr): (Vec<&Tensor>, Vec<&Tensor>) = (xs.iter().collect(), ys.iter().collect());
    let (vxr, vyr): (Vec<&Tensor>, Vec<&Tensor>) = (vx.iter().collect(), vy.iter().collect());
    let pre_call = |n: &mut neurons::network::Network| -> Result<(), String> {
        if let Some((e, v)) = case.pre {
            catch(std::panic::AssertUnwindSafe(|| {
                if v {
                    n.learn(&xr, &yr, Some((&vxr, &vyr, 1000)), case.batch, e, None)
                } else {
                    n.learn(&xr, &yr, None, case.batch, e, None)
                }
            }))?;
        }
        Ok(())
    };
    if case.pre.is_some() {
        ev.class("second learn() call on the same network object");
        if let Err(p) = pre_call(&mut net) {
            if p.contains("Loss is NaN") {
                ev.discard = Some("training diverged to NaN (library aborts)");
                return Ok(());
            }
            fail!("learn panicked: {} ({:?})", p, case);
        }
    }
    let res = catch(std::panic::AssertUnwindSafe(|| {
        if case.with_val {
            net.learn(&xr, &yr, Some((&vxr, &vyr, case.tol)), case.batch, case.budget, case.print)
        } else {
            net.learn(&xr, &yr, None, case.batch, case.budget, case.print)
        }
    }));
    let (tl, vl, va) = match res {
        Ok(r) => r,
        Err(p) => {
            if p.contains("Loss is NaN") {
                ev.discard = Some("training diverged to NaN (library aborts)");
                return Ok(());
            }
            fail!("learn panicked: {} ({:?})", p, case);
        }
    };
    let n = tl.len();
    let budget = case.budget as usize;
    let tol = case.tol as usize;
    ensure!(n >= 1 && n <= budget, "learn returned {} training-loss entries for an epoch budget of {}", n, budget);
    if !case.with_val {
        ev.class("no validation data");
        ensure!(vl.is_empty() && va.is_empty(), "without validation data learn returned {} validation-loss and {} accuracy entries", vl.len(), va.len());
        ensure!(n == budget, "without validation data only {} of {} epochs ran", n, budget);
    } else {
        ensure!(vl.len() == n && va.len() == n, "learn returned {} training-loss, {} validation-loss and {} accuracy entries", n, vl.len(), va.len());
        if vl.iter().any(|v| !v.is_finite()) {
            ev.discard = Some("non-finite validation loss");
            return Ok(());
        }
        // never continues past the first epoch at which the stopping condition holds
        for e in 1..n {
            ensure!(
                !stop_at(&vl, e, tol),
                "training continued after epoch {} although more than {} epochs had run and the last {} validation losses {:?} were strictly increasing (history {:?}, {} epochs run)",
                e, tol, tol, &vl[e - tol..e], vl, n
            );
        }
        // stops early only if the condition holds at the last epoch run
        if n < budget {
            ensure!(
                stop_at(&vl, n, tol),
                "training stopped after {} of {} epochs (tolerance {}) although the stopping condition does not hold: validation losses {:?}",
                n, budget, tol, vl
            );
            ev.class("early stop");
        }
        ev.class(format!("trajectory:{}", classify(&vl)));
        if vl.iter().any(|v| *v < 0.0) {
            ev.class("trajectory with negative losses");
        }
        if vl.windows(2).any(|p| p[0] != p[1] && crate::fcmp::ulps32(p[0], p[1]) <= 2) {
            ev.class("trajectory with 1-2 ulp steps");
        }
        if let Some(p) = case.print {
            ev.class(format!("print every {}", p));
        }
    }
    // the weights are those of exactly n epochs (validation does not influence training)
    let mut twin = make_net(case).map_err(Fail::new)?;
    if pre_call(&mut twin).is_err() {
        return Ok(());
    }
    let r2 = catch(std::panic::AssertUnwindSafe(|| twin.learn(&xr, &yr, None, case.batch, n as i32, None)));
    if let Ok((tl2, _, _)) = r2 {
        let (wa, wb) = (tens::flat(&collect_params(&net)[0].1), tens::flat(&collect_params(&twin)[0].1));
        ensure!(tens::first_bit_diff(&wa, &wb).is_none(), "final weights {:?} differ from those of a validation-free run of exactly {} epochs {:?}", wa, n, wb);
        ensure!(tl2.len() == n && tl.iter().zip(tl2.iter()).all(|(p, q)| p.to_bits() == q.to_bits()), "training-loss history {:?} differs from a validation-free run {:?}", tl, tl2);
    }
    let cls = if case.with_val { classify(&vl) } else { "none" };
    ev.nontrivial = case.with_val && (cls != "falling" && cls != "single" || n < budget);
    ev.set_sig(&(cls, tol, budget, n, case.with_val, vl.iter().map(|v| v.to_bits()).collect::<Vec<u32>>()));
    Ok(())
}

pub struct C13(pub Tier);

impl Prop for C13 {
    fn id(&self) -> &'static str {
        "C13"
    }
    fn tape_len(&self, _t: Tier) -> usize {
        48
    }
    fn cases(&self, t: Tier) -> usize {
        t.pick(300_000, 20_000_000)
    }
    fn workers(&self, _t: Tier) -> usize {
        16
    }
    fn rayon_threads(&self) -> Option<usize> {
        Some(1)
    }
    fn rule(&self) -> String {
        "tape-decoded training set-up whose validation-loss trajectory is exact: linear 1->1 (thorough also 2->1) model without bias, start weight, training slope, validation slope and offset on the 1/4 grid in [-4, 4], inputs in {+-1, 1/2, 2, 1/4}, objective MSE or AE (one case in eight: KL-divergence on predictions in (0, 1), whose validation loss becomes negative), plain SGD with learning rate in {1/16 .. 2}, 1-3 training and validation points, batch 1..N+1, tolerance 1..6, epoch budget 1..14, validation data present in 5/6 of the cases, print frequency none (2/3) or 1, 2, 3, 100; one case in eight steers the validation loss by exactly one unit in the last place per epoch; in one case of six the network has already been through an earlier learn() call of 1-7 epochs (with or without validation data) and the contract is checked on the second call. Invariant over the returned history: one training-loss entry per epoch run, as many validation-loss and accuracy entries (none without validation data, and then all epochs run), never continues past the first epoch e > tolerance whose last `tolerance` validation losses are strictly increasing, stops early only if that holds at the last epoch, final weights and training losses equal those of a validation-free run of exactly that many epochs. Non-trivial: trajectory not monotone-falling, or an early stop. Distinct = (trajectory class, tolerance, budget, epochs run, loss bit patterns).".into()
    }
    fn assumptions(&self) -> Vec<String> {
        vec!["'strictly increased throughout the last `tolerance` recorded epochs' is read as: the last `tolerance` recorded validation losses form a strictly increasing sequence (tolerance - 1 comparisons)".into()]
    }
    fn run_case(&self, tape: &[u32], ev: &mut CaseEv) -> CheckResult {
        check(&decode(tape, self.0), ev)
    }
    fn describe(&self, tape: &[u32]) -> Value {
        json!(format!("{:?}", decode(tape, self.0)))
    }
}

pub fn run(eng: &Engine, replay_path: Option<&str>) -> i32 {
    let p = C13(eng.tier);
    if let Some(path) = replay_path {
        return replay(&p, eng, path);
    }
    standard_run(&p, eng)
}
