//! Tensor helpers for the harness (construction from flat data, row-major model, comparisons).

use neurons::tensor::{Data, Shape, Tensor};

pub fn build(dims: &[usize], v: &[f32]) -> Tensor {
    assert_eq!(dims.iter().product::<usize>(), v.len());
    match dims.len() {
        1 => Tensor::single(v.to_vec()),
        2 => Tensor::double(v.chunks(dims[1]).map(|r| r.to_vec()).collect()),
        3 => Tensor::triple(
            v.chunks(dims[1] * dims[2]).map(|c| c.chunks(dims[2]).map(|r| r.to_vec()).collect()).collect(),
        ),
        4 => Tensor::quadruple(
            v.chunks(dims[1] * dims[2] * dims[3])
                .map(|f| f.chunks(dims[2] * dims[3]).map(|c| c.chunks(dims[3]).map(|r| r.to_vec()).collect()).collect())
                .collect(),
        ),
        _ => panic!("rank"),
    }
}

pub fn triple(c: usize, h: usize, w: usize, v: &[f32]) -> Tensor {
    build(&[c, h, w], v)
}

/// Flatten any numeric tensor in nested (row-major) order; nested lists are concatenated.
pub fn flat(t: &Tensor) -> Vec<f32> {
    let mut out = Vec::new();
    fn rec(d: &Data, out: &mut Vec<f32>) {
        match d {
            Data::Single(v) => out.extend(v),
            Data::Double(v) => v.iter().for_each(|r| out.extend(r)),
            Data::Triple(v) => v.iter().for_each(|c| c.iter().for_each(|r| out.extend(r))),
            Data::Quadruple(v) => v.iter().for_each(|f| f.iter().for_each(|c| c.iter().for_each(|r| out.extend(r)))),
            Data::Nested(ts) => ts.iter().for_each(|t| rec(&t.data, out)),
            Data::NestedOptional(ts) => ts.iter().for_each(|t| {
                if let Some(t) = t {
                    rec(&t.data, out)
                }
            }),
            Data::Quintuple(_) => panic!("index tensor"),
        }
    }
    rec(&t.data, &mut out);
    out
}

/// Extents read from the nested vectors themselves (every row is checked to be rectangular).
pub fn data_dims(t: &Tensor) -> Option<Vec<usize>> {
    match &t.data {
        Data::Single(v) => Some(vec![v.len()]),
        Data::Double(v) => {
            let c = v.first().map(|r| r.len()).unwrap_or(0);
            if v.iter().all(|r| r.len() == c) {
                Some(vec![v.len(), c])
            } else {
                None
            }
        }
        Data::Triple(v) => {
            let h = v.first().map(|c| c.len()).unwrap_or(0);
            let w = v.first().and_then(|c| c.first()).map(|r| r.len()).unwrap_or(0);
            if v.iter().all(|c| c.len() == h && c.iter().all(|r| r.len() == w)) {
                Some(vec![v.len(), h, w])
            } else {
                None
            }
        }
        Data::Quadruple(v) => {
            let a = v.first().map(|c| c.len()).unwrap_or(0);
            let b = v.first().and_then(|c| c.first()).map(|r| r.len()).unwrap_or(0);
            let c = v.first().and_then(|c| c.first()).and_then(|r| r.first()).map(|r| r.len()).unwrap_or(0);
            if v.iter().all(|x| x.len() == a && x.iter().all(|y| y.len() == b && y.iter().all(|z| z.len() == c))) {
                Some(vec![v.len(), a, b, c])
            } else {
                None
            }
        }
        _ => None,
    }
}

pub fn shape_dims(s: &Shape) -> Vec<usize> {
    match s {
        Shape::Single(a) => vec![*a],
        Shape::Double(a, b) => vec![*a, *b],
        Shape::Triple(a, b, c) => vec![*a, *b, *c],
        Shape::Quadruple(a, b, c, d) => vec![*a, *b, *c, *d],
        Shape::Quintuple(a, b, c, d, e) => vec![*a, *b, *c, *d, *e],
        Shape::Nested(n) => vec![*n],
    }
}

pub fn shape_of(dims: &[usize]) -> Shape {
    match dims.len() {
        1 => Shape::Single(dims[0]),
        2 => Shape::Double(dims[0], dims[1]),
        3 => Shape::Triple(dims[0], dims[1], dims[2]),
        4 => Shape::Quadruple(dims[0], dims[1], dims[2], dims[3]),
        _ => panic!("rank"),
    }
}

/// Shape field consistent with the data it carries?
pub fn consistent(t: &Tensor) -> bool {
    match (&t.shape, data_dims(t)) {
        (Shape::Nested(_), _) => true,
        (s, Some(d)) => {
            let rank_ok = matches!(
                (s, &t.data),
                (Shape::Single(_), Data::Single(_))
                    | (Shape::Double(_, _), Data::Double(_))
                    | (Shape::Triple(_, _, _), Data::Triple(_))
                    | (Shape::Quadruple(_, _, _, _), Data::Quadruple(_))
            );
            rank_ok && shape_dims(s) == d
        }
        _ => false,
    }
}

pub fn bits(v: &[f32]) -> Vec<u32> {
    v.iter().map(|x| x.to_bits()).collect()
}

pub fn first_bit_diff(a: &[f32], b: &[f32]) -> Option<usize> {
    if a.len() != b.len() {
        return Some(a.len().min(b.len()));
    }
    a.iter().zip(b.iter()).position(|(x, y)| x.to_bits() != y.to_bits())
}

pub fn all_finite(v: &[f32]) -> bool {
    v.iter().all(|x| x.is_finite())
}
