//! C17 — loop connections compute the accumulated repeated sub-network.

use crate::c11::accumulate;
use crate::engine::*;
use crate::fcmp::ulps32;
use crate::net::*;
use crate::refmodel::{ActK, ConvCfg};
use crate::tape::{payload, Tape};
use crate::tens;
use crate::{ensure, fail};
use neurons::network::Network;
use neurons::tensor::Tensor;
use serde_json::{json, Value};
use std::sync::Arc;

#[derive(Debug, Clone)]
struct Case {
    spec: NetSpec,
    a: usize,
    b: usize,
    k: usize,
    acc: Acc,
    inskips: bool,
    wseed: u32,
    xseed: u32,
    /// 0-1 ordinary weights, 2 small weights (contracting range), 3 zero weights in the range (constant outputs)
    wclass: u8,
    /// accumulation configured for *skip* connections (none exist here; it must not influence loops)
    skipacc: Acc,
    /// an optional second loop connection over a later, disjoint range: (a, b, k, input skips)
    second: Option<(usize, usize, usize, bool)>,
    /// the two ranges overlap or are nested: the statement defines no value for that, only
    /// predict == final activation of forward is asserted
    overlap: bool,
}

/// A range of layers whose output shape equals `dims` (the input shape of its first layer).
fn gen_range(t: &mut Tape, dims: &[usize], o: &GenOpts) -> Vec<LayerSpec> {
    if dims.len() == 1 {
        let n = dims[0];
        match t.pick(3) {
            0 => vec![LayerSpec::Dense { out: n, act: gen_act(t, o), bias: t.bool(), dropout: None }],
            1 => {
                let m = t.usize(1, 6);
                vec![
                    LayerSpec::Dense { out: m, act: gen_act(t, o), bias: t.bool(), dropout: None },
                    LayerSpec::Dense { out: n, act: gen_act(t, o), bias: t.bool(), dropout: None },
                ]
            }
            _ => {
                let m = t.usize(1, 6);
                let m2 = t.usize(1, 6);
                vec![
                    LayerSpec::Dense { out: m, act: gen_act(t, o), bias: t.bool(), dropout: None },
                    LayerSpec::Dense { out: m2, act: gen_act(t, o), bias: t.bool(), dropout: None },
                    LayerSpec::Dense { out: n, act: gen_act(t, o), bias: t.bool(), dropout: None },
                ]
            }
        }
    } else {
        let (c, h, w) = (dims[0], dims[1], dims[2]);
        match t.pick(6) {
            4 if h >= 2 && w >= 2 => {
                // pool 2x2 stride 1 shrinks by 1, deconvolution 2x2 stride 1 grows by 1: the range starts at a max-pool
                vec![
                    LayerSpec::Pool { kernel: (2, 2), stride: (1, 1) },
                    LayerSpec::Deconv { cfg: ConvCfg { filters: c, kernel: (2, 2), stride: (1, 1), padding: (0, 0), dilation: (1, 1) }, act: gen_act(t, o), dropout: None },
                ]
            }
            5 if h >= 3 && w >= 3 => {
                // pool 3x3 stride 1 shrinks by 2, 1x1 convolution with padding 1 grows by 2
                vec![
                    LayerSpec::Pool { kernel: (3, 3), stride: (1, 1) },
                    LayerSpec::Conv { cfg: ConvCfg { filters: c, kernel: (1, 1), stride: (1, 1), padding: (1, 1), dilation: (1, 1) }, act: gen_act(t, o), dropout: None },
                ]
            }
            0 | 4 | 5 => vec![gen_same_size(t, c, h, w, o)],
            1 => {
                let mid = t.usize(1, 3);
                vec![gen_same_size(t, mid, h, w, o), gen_same_size(t, c, h, w, o)]
            }
            2 => {
                // 1x1 kernel with padding 1 grows by 2, a 3x3 pool with stride 1 shrinks by 2
                vec![
                    LayerSpec::Conv { cfg: ConvCfg { filters: c, kernel: (1, 1), stride: (1, 1), padding: (1, 1), dilation: (1, 1) }, act: gen_act(t, o), dropout: None },
                    LayerSpec::Pool { kernel: (3, 3), stride: (1, 1) },
                ]
            }
            _ => {
                // deconvolution 2x2 stride 1 grows by 1, pool 2x2 stride 1 shrinks by 1
                vec![
                    LayerSpec::Deconv { cfg: ConvCfg { filters: c, kernel: (2, 2), stride: (1, 1), padding: (0, 0), dilation: (1, 1) }, act: gen_act(t, o), dropout: None },
                    LayerSpec::Pool { kernel: (2, 2), stride: (1, 1) },
                ]
            }
        }
    }
}

fn decode(tape: &[u32]) -> Case {
    let mut t = Tape::new(tape);
    if t.chance(1, 12) {
        // overlapping / nested loop connections over a chain of equally wide dense layers
        let o = GenOpts { acts: &[ActK::Linear, ActK::Tanh, ActK::Sigmoid, ActK::Leaky], ..GenOpts::default() };
        let n = t.usize(1, 5);
        let nl = t.usize(3, 5);
        let layers: Vec<LayerSpec> = (0..nl).map(|_| LayerSpec::Dense { out: n, act: gen_act(&mut t, &o), bias: t.bool(), dropout: None }).collect();
        let a = t.usize(0, nl - 2);
        let b = t.usize(a, nl - 2);
        // second loop: starts inside or at the first range, ends beyond it (overlap) or inside it (nested)
        let a2 = t.usize(a, b);
        let b2 = if t.bool() { t.usize(b + 1, nl - 1) } else { t.usize(a2, b) };
        let second = if (a2, b2) == (a, b) || b2 == b { Some((a2, (b + 1).min(nl - 1), t.usize(1, 2), t.bool())) } else { Some((a2, b2, t.usize(1, 2), t.bool())) };
        return Case { spec: NetSpec { input: vec![n], layers }, a, b, k: t.usize(1, 3), acc: ACCS[t.pick(5)], inskips: t.bool(), wseed: t.raw(), xseed: t.raw(), wclass: 2, skipacc: ACCS[t.pick(5)], second, overlap: true };
    }
    let o = GenOpts { acts: &[ActK::Linear, ActK::Tanh, ActK::Sigmoid, ActK::ReLU, ActK::Leaky], max_hw: 5, allow_feedback: false, ..GenOpts::default() };
    // one case in 40: a flat network of width 65..300 (accumulations over long vectors)
    let wide = t.chance(1, 40);
    let input = if wide { vec![t.usize(65, 300)] } else if t.bool() { vec![t.usize(1, 3), t.usize(1, 5), t.usize(1, 5)] } else { vec![t.usize(1, 6)] };
    let mut layers: Vec<LayerSpec> = Vec::new();
    let mut cur = input.clone();
    // optional prefix layer
    if t.bool() && !wide {
        let l = gen_layer(&mut t, &cur, true, &o, false);
        cur = model_out(&cur, &l).unwrap();
        layers.push(l);
    }
    // the looped range reads `cur` as its first layer would
    let a = layers.len();
    let range_spatial = cur.len() == 3 || (!layers.is_empty() && isqrt_exact(cur[0]).is_some() && t.bool());
    let dims_in = if range_spatial { let (c, h, w) = spatial_dims(&cur); vec![c, h, w] } else { vec![count(&cur)] };
    let range = gen_range(&mut t, &dims_in, &o);
    layers.extend(range);
    let b = layers.len() - 1;
    // one case in four: a second loop connection over a later, disjoint range (optionally one layer in between)
    let mut second = None;
    if t.chance(1, 4) {
        let mut cur2 = dims_in.clone();
        if t.bool() {
            let l = gen_layer(&mut t, &cur2, false, &o, false);
            cur2 = model_out(&cur2, &l).unwrap();
            layers.push(l);
        }
        let a2 = layers.len();
        let spatial2 = cur2.len() == 3 || (isqrt_exact(cur2[0]).is_some() && t.bool());
        let dims2 = if spatial2 { let (c, h, w) = spatial_dims(&cur2); vec![c, h, w] } else { vec![count(&cur2)] };
        let r2 = gen_range(&mut t, &dims2, &o);
        layers.extend(r2);
        second = Some((a2, layers.len() - 1, t.usize(1, 3), t.bool()));
    }
    let dims_in = match second { Some((a2, _, _, _)) => { let mut c = input.clone(); for l in &layers[..a2] { c = model_out(&c, l).unwrap(); } if layers[a2].is_spatial() { let (cc, h, w) = spatial_dims(&c); vec![cc, h, w] } else { vec![count(&c)] } } None => dims_in };
    // optional suffix: a dense layer (flattens a spatial range output) or another fitting layer
    match t.pick(3) {
        0 => {}
        1 => layers.push(LayerSpec::Dense { out: t.usize(1, 5), act: gen_act(&mut t, &o), bias: t.bool(), dropout: None }),
        _ => {
            let l = gen_layer(&mut t, &dims_in, false, &o, false);
            layers.push(l);
        }
    }
    // k is mostly 1..3; one case in five loops 4..24 times (long loops settle to a fixed point)
    let k = if t.chance(1, 5) { t.usize(4, 24) } else { t.usize(1, 3) };
    let wclass = t.pick(4) as u8;
    Case { spec: NetSpec { input, layers }, a, b, k, acc: ACCS[t.pick(5)], inskips: t.bool(), wseed: t.raw(), xseed: t.raw(), wclass, skipacc: ACCS[t.pick(5)], second, overlap: false }
}

fn build_loop(case: &Case) -> Result<Network, String> {
    let mut net = build(&case.spec)?;
    let (a, b, k, ins, acc, sacc) = (case.a, case.b, case.k, case.inskips, case.acc, case.skipacc);
    catch(std::panic::AssertUnwindSafe(|| {
        net.set_accumulation(sacc.lib(), acc.lib());
        net.loopback(b, a, k, Arc::new(|x| 1.0 / x), ins);
        if let Some((a2, b2, k2, ins2)) = case.second {
            net.loopback(b2, a2, k2, Arc::new(|x| 1.0 / x), ins2);
        }
    }))?;
    Ok(net)
}

fn check(case: &Case, ev: &mut CaseEv) -> CheckResult {
    let spec = &case.spec;
    ev.class(format!("acc:{:?}", case.acc));
    ev.class(format!("k{}", case.k));
    ev.class(if case.inskips { "inskips" } else { "no-inskips" });
    let range_spatial = spec.layers[case.a].is_spatial();
    ev.class(if range_spatial { "spatial range" } else { "dense range" });
    if spec.layers[case.a..=case.b].iter().any(|l| matches!(l, LayerSpec::Pool { .. })) {
        ev.class("range with max-pool");
    }
    let flattened_end = range_spatial && spec.layers.get(case.b + 1).map(|l| !l.is_spatial()).unwrap_or(false);
    if flattened_end {
        ev.class("range output flattened for a dense layer");
    }
    let mut net = build_loop(case).map_err(|p| Fail::new(format!("valid loop connection {}..{} x{} rejected: {} ({:?})", case.a, case.b, case.k, p, spec)))?;
    let mut ps = seeded_params(&net, spec, case.wseed, 1, if case.wclass == 2 { 0.15 } else { 1.0 });
    if case.wclass == 3 {
        for (r, t) in ps.iter_mut() {
            // zero the weight matrices / kernels of the looped range, keep biases
            if ((r.layer >= case.a && r.layer <= case.b) || case.second.map(|(a2, b2, _, _)| r.layer >= a2 && r.layer <= b2).unwrap_or(false)) && (r.tensor == 0 || spec.layers[r.layer].is_spatial()) {
                let d = tensor_dims(t);
                *t = tens::build(&d, &vec![0.0; count(&d)]);
            }
        }
        ev.class("zero weights in the looped range");
    }
    if case.wclass == 2 {
        ev.class("contracting range");
    }
    apply_params(&mut net, &ps);
    let x = payload(case.xseed, 3, count(&spec.input), 1.0);
    let xt = tens::build(&spec.input, &x);
    if case.overlap {
        ev.class("overlapping / nested loop connections (predict == forward only)");
        let got = match catch(|| net.predict(&xt)) {
            Ok(g) => g,
            Err(_) => {
                ev.discard = Some("overlapping loops: predict aborts");
                return Ok(());
            }
        };
        let (_, act, _, _) = catch(|| net.forward(&xt)).map_err(|p| Fail::new(format!("forward panicked although predict did not (loops {}..{} x{} and {:?}): {}", case.a, case.b, case.k, case.second, p)))?;
        let last = act.last().unwrap();
        ensure!(last.shape == got.shape && tens::first_bit_diff(&tens::flat(last), &tens::flat(&got)).is_none(), "predict differs from the final activation of forward with loop connections {}..{} x{} (inskips {}) and {:?} ({:?}): {:?} vs {:?}; spec {:?}", case.a, case.b, case.k, case.inskips, case.second, case.acc, tens::flat(&got), tens::flat(last), spec);
        // The value: a dense chain of equal widths, so every tensor is flat. For a loop nested inside another the
        // statement leaves open whether the outer loop's repetitions re-run the inner loop; both readings are
        // admissible, but the first pass is not in doubt (the inner loop runs, its accumulated value is passed on).
        // For partially overlapping ranges only the plain reading exists; with input skips on the later loop its
        // "original input" has been touched by the earlier loop's accumulation, so no value is asserted there.
        let (a2, b2, k2, ins2) = case.second.unwrap();
        let seq = |from: usize, to: usize, input: &Tensor| -> Tensor {
            let mut cur = input.clone();
            for l in &net.layers[from..to] {
                cur = layer_forward(l, &cur).1;
            }
            cur
        };
        // accumulated value of `k` repetitions after a first pass `first(x)`, each repetition computed by `rep`
        let run = |k: usize, ins: bool, xa: &Tensor, first: &dyn Fn(&Tensor) -> Tensor, rep: &dyn Fn(&Tensor) -> Tensor| -> Tensor {
            let mut outs = vec![first(xa)];
            for _ in 0..k {
                let mut cur = outs.last().unwrap().clone();
                if ins {
                    cur = accumulate(Acc::Add, &cur, &[xa.clone()]);
                }
                outs.push(rep(&cur));
            }
            accumulate(case.acc, &outs[0], &outs[1..])
        };
        let end = net.layers.len();
        let (a, b, k, ins) = (case.a, case.b, case.k, case.inskips);
        let readings: Result<Vec<Tensor>, String> = catch(|| {
            let xa = seq(0, a, &xt);
            if b2 < b || (a2 == a && b2 > b) {
                // nested: inner (ia..ib) inside outer (oa..ob)
                let (ia, ib, ik, iins, oa, ob, ok, oins) = if b2 < b { (a2, b2, k2, ins2, a, b, k, ins) } else { (a, b, k, ins, a2, b2, k2, ins2) };
                let plain = |x: &Tensor| seq(oa, ob + 1, x);
                let full = |x: &Tensor| {
                    let xi = seq(oa, ia, x);
                    let inner_plain = |y: &Tensor| seq(ia, ib + 1, y);
                    let v = run(ik, iins, &xi, &inner_plain, &inner_plain);
                    seq(ib + 1, ob + 1, &v)
                };
                vec![seq(ob + 1, end, &run(ok, oins, &xa, &full, &plain)), seq(ob + 1, end, &run(ok, oins, &xa, &full, &full))]
            } else if !ins2 {
                // partial overlap a < a2 <= b < b2, later loop without input skips
                let p1 = |x: &Tensor| seq(a, b + 1, x);
                let v1 = run(k, ins, &xa, &p1, &p1);
                let first2 = |_: &Tensor| seq(b + 1, b2 + 1, &v1);
                let rep2 = |x: &Tensor| seq(a2, b2 + 1, x);
                vec![seq(b2 + 1, end, &run(k2, false, &v1, &first2, &rep2))]
            } else {
                Vec::new()
            }
        });
        let readings = readings.map_err(|p| Fail::new(format!("harness model of nested / overlapping loops panicked: {p}")))?;
        if !readings.is_empty() {
            let g = tens::flat(&got);
            let close = |m: &Tensor| { let m = tens::flat(m); m.len() == g.len() && (0..g.len()).all(|i| !(g[i].is_finite() && m[i].is_finite()) || ulps32(g[i], m[i]) <= 2) };
            ensure!(
                readings.iter().any(close),
                "loop connections {}..{} x{} (inskips {}) and {}..{} x{} (inskips {}), {:?}: the prediction {:?} is none of the admissible values {:?} (first pass with every loop run; repetitions of an enclosing loop with or without re-running the enclosed one); spec {:?}",
                a, b, k, ins, a2, b2, k2, ins2, case.acc, g, readings.iter().map(tens::flat).collect::<Vec<_>>(), spec
            );
            ev.class(if readings.len() == 2 { "nested loops: value checked (two admissible readings)" } else { "partially overlapping loops: value checked" });
        }
        ev.nontrivial = true;
        ev.set_sig(&(spec, case.a, case.b, case.k, case.acc, case.inskips, case.second, "overlap"));
        return Ok(());
    }

    // model
    let fwd = |from: usize, to: usize, input: &Tensor| -> Result<Tensor, String> {
        catch(|| {
            let mut cur = input.clone();
            for l in &net.layers[from..to] {
                let (_, post) = layer_forward(l, &cur);
                cur = post;
            }
            cur
        })
    };
    // value passed on after a looped range a..b fed with xa
    let looped = |a: usize, b: usize, k: usize, inskips: bool, xa: &Tensor| -> Result<Tensor, Fail> {
        let mut outs: Vec<Tensor> = vec![fwd(a, b + 1, xa).map_err(Fail::new)?];
        for _ in 0..k {
            let prev = outs.last().unwrap().clone();
            let mut cur = if prev.shape != xa.shape { prev.reshape(xa.shape.clone()) } else { prev };
            if inskips {
                cur = accumulate(Acc::Add, &cur, &[xa.clone()]);
            }
            outs.push(fwd(a, b + 1, &cur).map_err(|p| Fail::new(format!("harness model: range forward panicked: {p}")))?);
        }
        Ok(accumulate(case.acc, &outs[0], &outs[1..]))
    };
    let xa = fwd(0, case.a, &xt).map_err(Fail::new)?;
    let passed_on = looped(case.a, case.b, case.k, case.inskips, &xa)?;
    let model = match case.second {
        None => fwd(case.b + 1, net.layers.len(), &passed_on).map_err(Fail::new)?,
        Some((a2, b2, k2, ins2)) => {
            ev.class("two loop connections");
            let xa2 = fwd(case.b + 1, a2, &passed_on).map_err(Fail::new)?;
            let p2 = looped(a2, b2, k2, ins2, &xa2)?;
            fwd(b2 + 1, net.layers.len(), &p2).map_err(Fail::new)?
        }
    };

    let got = match catch(|| net.predict(&xt)) {
        Ok(g) => g,
        Err(p) => {
            let msg = format!("predict panicked with loop {}..{} x{} ({:?}, inskips {}): {}; spec {:?}", case.a, case.b, case.k, case.acc, case.inskips, p, spec);
            if flattened_end && case.inskips && case.second.is_none() {
                return Err(Fail::known(msg, "loop_flattened_output_inskips"));
            }
            fail!("{}", msg);
        }
    };
    ensure!(got.shape == model.shape, "prediction shape {:?}, model {:?}", got.shape, model.shape);
    let (g, m) = (tens::flat(&got), tens::flat(&model));
    for i in 0..g.len() {
        if !(g[i].is_finite() && m[i].is_finite()) {
            continue;
        }
        let d = ulps32(g[i], m[i]);
        ensure!(
            d <= 2,
            "loop {}..{} x{} ({:?}, inskips {}){}: output element {} is {:e}, the accumulated repeated sub-network gives {:e}; spec {:?}",
            case.a, case.b, case.k, case.acc, case.inskips, match case.second { Some((a2, b2, k2, i2)) => format!(" and loop {}..{} x{} (inskips {})", a2, b2, k2, i2), None => String::new() }, i, g[i], m[i], spec
        );
    }
    // overwrite == plain network with the range repeated k+1 times (shared weights)
    if case.acc == Acc::Overwrite && !case.inskips && case.second.is_none() {
        let mut layers = spec.layers[..case.a].to_vec();
        for _ in 0..=case.k {
            layers.extend_from_slice(&spec.layers[case.a..=case.b]);
        }
        layers.extend_from_slice(&spec.layers[case.b + 1..]);
        let twin_spec = NetSpec { input: spec.input.clone(), layers };
        let mut twin = build(&twin_spec).map_err(|p| Fail::new(format!("harness: twin network rejected: {p}")))?;
        let rlen = case.b - case.a + 1;
        let twin_ps: Vec<(PRef, Tensor)> = collect_params(&twin)
            .iter()
            .map(|(r, _)| {
                let src_layer = if r.layer < case.a {
                    r.layer
                } else if r.layer < case.a + rlen * (case.k + 1) {
                    case.a + (r.layer - case.a) % rlen
                } else {
                    r.layer - rlen * case.k
                };
                let src = ps.iter().find(|(q, _)| q.layer == src_layer && q.tensor == r.tensor).expect("source parameter");
                (*r, src.1.clone())
            })
            .collect();
        apply_params(&mut twin, &twin_ps);
        let tw = catch(|| twin.predict(&xt)).map_err(|p| Fail::new(format!("harness: twin predict panicked: {p}")))?;
        let tf = tens::flat(&tw);
        for i in 0..g.len() {
            ensure!(
                ulps32(g[i], tf[i]) <= 2 || !(g[i].is_finite() && tf[i].is_finite()),
                "overwrite loop {}..{} x{}: output element {} is {:e}, the plain network with the range repeated {} times gives {:e}; spec {:?}",
                case.a, case.b, case.k, i, g[i], case.k + 1, tf[i], spec
            );
        }
        ev.class("overwrite twin checked");
    }
    ev.nontrivial = case.k >= 1 && (case.a < case.b || range_spatial);
    ev.set_sig(&(spec, case.a, case.b, case.k, case.acc, case.inskips, case.second));
    Ok(())
}

pub struct C17;

impl Prop for C17 {
    fn id(&self) -> &'static str {
        "C17"
    }
    fn tape_len(&self, _t: Tier) -> usize {
        64
    }
    fn cases(&self, t: Tier) -> usize {
        t.pick(400_000, 30_000_000)
    }
    fn rule(&self) -> String {
        "tape-decoded network (one case in 40 flat with 65-300 inputs) = optional prefix layer + looped range a..b whose output shape equals the input shape of a (1-3 dense layers; 1-2 shape-preserving convolutions / deconvolutions; 1x1-kernel padding-1 convolution + 3x3 pool; 2x2 deconvolution + 2x2 pool; 2x2 pool + 2x2 deconvolution and 3x3 pool + padded 1x1 convolution, i.e. ranges that start at a max-pool); in one case of four a second loop connection over a later disjoint range (optionally one layer in between); one case in twelve has two overlapping or nested loop connections over a chain of equally wide dense layers - there predict == final activation of forward is asserted and, for a loop nested inside another, that the prediction is one of the two admissible values (first pass with both loops run; the enclosing loop's repetitions with or without re-running the enclosed loop), for partially overlapping ranges without input skips on the later loop the single plain value (<= 2 ulp) + optional suffix (a dense layer, which makes the range output flattened, or another fitting layer); k = 1..3 (one case in five: 4..24), ordinary / small / zero weights in the range, five accumulations, input skips on/off, any accumulation configured for (absent) skip connections; distinct weights, random inputs. Oracle: o0 = R(x_a), oi = R(o(i-1) [+ x_a]), value passed on = acc(o0; o1..ok), composed from the library's own single-layer forwards (accumulations computed by the harness) (<= 2 ulp, bit-identical today); for overwrite without input skips additionally the plain network with a..b repeated k+1 times and the same weights. Non-trivial: a < b or a spatial range. Distinct = (architecture, a, b, k, accumulation, input skips).".into()
    }
    fn run_case(&self, tape: &[u32], ev: &mut CaseEv) -> CheckResult {
        check(&decode(tape), ev)
    }
    fn describe(&self, tape: &[u32]) -> Value {
        let c = decode(tape);
        json!({"spec": format!("{:?}", c.spec), "a": c.a, "b": c.b, "k": c.k, "acc": format!("{:?}", c.acc), "inskips": c.inskips, "second_loop(a,b,k,inskips)": format!("{:?}", c.second)})
    }
}

pub fn run(eng: &Engine, replay_path: Option<&str>) -> i32 {
    let p = C17;
    if let Some(path) = replay_path {
        return replay(&p, eng, path);
    }
    standard_run(&p, eng)
}
