//! C08 — announced layer shapes equal produced shapes; transitions lose nothing.

use crate::engine::*;
use crate::net::*;
use crate::refmodel::{ActK, ConvCfg, ObjK};
use crate::tape::{payload, Tape};
use crate::tens;
use crate::{ensure, fail};
use neurons::network::Network;
use neurons::objective;
use neurons::tensor::{Shape, Tensor};
use serde_json::{json, Value};

#[derive(Debug, Clone)]
struct Case {
    kind: u8,
    input: Vec<usize>,
    requests: Vec<LayerSpec>,
    seed: u32,
    // identity-transition cases
    ident: Vec<u8>,
    tail_dense: bool,
}

fn raw_request(t: &mut Tape, cur_flat: bool, first: bool) -> LayerSpec {
    // spatial requests on flat shapes are generated on purpose (perfect squares and non-squares)
    let k = if first {
        if cur_flat { 0 } else { 1 + t.pick(3) }
    } else {
        t.pick(4)
    };
    let act = [ActK::Linear, ActK::Tanh, ActK::ReLU, ActK::Sigmoid][t.pick(4)];
    match k {
        0 => LayerSpec::Dense { out: if t.bool() { [1usize, 4, 9, 16, 25][t.pick(5)] } else { t.usize(1, 30) }, act, bias: t.bool(), dropout: None },
        1 => {
            let kh = t.usize(1, 4);
            let kw = t.usize(1, 4);
            LayerSpec::Conv {
                cfg: ConvCfg { filters: t.usize(1, 3), kernel: (kh, kw), stride: (t.usize(1, 3), t.usize(1, 3)), padding: (t.usize(0, kh + 1), t.usize(0, kw + 1)), dilation: (t.usize(1, 3), t.usize(1, 3)) },
                act,
                dropout: None,
            }
        }
        2 => LayerSpec::Deconv {
            cfg: ConvCfg { filters: t.usize(1, 3), kernel: (t.usize(1, 4), t.usize(1, 4)), stride: (t.usize(1, 3), t.usize(1, 3)), padding: (t.usize(0, 3), t.usize(0, 3)), dilation: (1, 1) },
            act,
            dropout: None,
        },
        _ => LayerSpec::Pool { kernel: (t.usize(1, 4), t.usize(1, 4)), stride: (t.usize(1, 4), t.usize(1, 4)) },
    }
}

/// A feedback-block request that fits `cur`: its layer chain returns to the shape it starts from.
/// Flat: dense n -> n or n -> m -> n. Spatial: a general same-size convolution / deconvolution (odd kernel up
/// to 5, dilation up to 2, padding d(k-1)/2), or a shrinking layer (any fitting convolution, or a max-pool)
/// followed by the deconvolution that restores the size ((m-1)s + k - 2p = n solved for k).
fn fb_request(t: &mut Tape, cur: &[usize]) -> Option<LayerSpec> {
    let acts = [ActK::Linear, ActK::Tanh, ActK::ReLU, ActK::Sigmoid];
    let loops = t.usize(1, 3);
    let (inskips, outskips) = (t.chance(1, 3), t.chance(1, 3));
    let acc = ACCS[t.pick(5)];
    let layers = if cur.len() == 1 {
        let n = cur[0];
        if t.bool() {
            vec![LayerSpec::Dense { out: n, act: acts[t.pick(4)], bias: t.bool(), dropout: None }]
        } else {
            vec![LayerSpec::Dense { out: t.usize(1, 12), act: acts[t.pick(4)], bias: t.bool(), dropout: None }, LayerSpec::Dense { out: n, act: acts[t.pick(4)], bias: t.bool(), dropout: None }]
        }
    } else {
        let (c, h, w) = (cur[0], cur[1], cur[2]);
        let restore = |t: &mut Tape, from: &[usize]| -> Option<LayerSpec> {
            // deconvolution from (.., mh, mw) back to (c, h, w)
            let (mh, mw) = (from[1], from[2]);
            let (sh, sw) = (t.usize(1, 2), t.usize(1, 2));
            let (ph, pw) = (t.usize(0, 1), t.usize(0, 1));
            let kh = h as i64 - (mh as i64 - 1) * sh as i64 + 2 * ph as i64;
            let kw = w as i64 - (mw as i64 - 1) * sw as i64 + 2 * pw as i64;
            if kh < 1 || kw < 1 || kh > 9 || kw > 9 {
                return None;
            }
            Some(LayerSpec::Deconv { cfg: ConvCfg { filters: c, kernel: (kh as usize, kw as usize), stride: (sh, sw), padding: (ph, pw), dilation: (1, 1) }, act: ActK::Linear, dropout: None })
        };
        match t.pick(3) {
            0 => {
                let (kh, kw) = ([1usize, 3, 5][t.pick(3)], [1usize, 3, 5][t.pick(3)]);
                if t.bool() {
                    let (dh, dw) = (t.usize(1, 2), t.usize(1, 2));
                    vec![LayerSpec::Conv { cfg: ConvCfg { filters: c, kernel: (kh, kw), stride: (1, 1), padding: (dh * (kh - 1) / 2, dw * (kw - 1) / 2), dilation: (dh, dw) }, act: acts[t.pick(4)], dropout: None }]
                } else {
                    vec![LayerSpec::Deconv { cfg: ConvCfg { filters: c, kernel: (kh, kw), stride: (1, 1), padding: ((kh - 1) / 2, (kw - 1) / 2), dilation: (1, 1) }, act: acts[t.pick(4)], dropout: None }]
                }
            }
            1 => {
                let first = raw_request(t, false, true);
                let first = match first {
                    LayerSpec::Conv { .. } => first,
                    _ => LayerSpec::Conv { cfg: ConvCfg { filters: t.usize(1, 3), kernel: (t.usize(1, 3), t.usize(1, 3)), stride: (t.usize(1, 3), t.usize(1, 3)), padding: (t.usize(0, 2), t.usize(0, 2)), dilation: (t.usize(1, 2), t.usize(1, 2)) }, act: acts[t.pick(4)], dropout: None },
                };
                let mid = model_out(cur, &first)?;
                vec![first, restore(t, &mid)?]
            }
            _ => {
                let first = LayerSpec::Pool { kernel: (t.usize(1, h.min(3)), t.usize(1, w.min(3))), stride: (t.usize(1, 2), t.usize(1, 2)) };
                let mid = model_out(cur, &first)?;
                vec![first, restore(t, &mid)?]
            }
        }
    };
    let fb = LayerSpec::Feedback { layers, loops, inskips, outskips, acc };
    // the chain must return to where it started
    if model_out(cur, &fb).as_deref() != Some(cur) {
        return None;
    }
    Some(fb)
}

/// The shape model's view of one request: None = not part of the accepted sequence (refused by design,
/// outside the property, or over the size bound), otherwise the shape after the layer.
fn model_step(cur: &[usize], req: &LayerSpec, any_accepted: bool) -> Option<Vec<usize>> {
    let flat_cur = cur.len() == 1;
    let spatial_req = req.is_spatial();
    if flat_cur && spatial_req && (!any_accepted || isqrt_exact(cur[0]).is_none()) {
        return None;
    }
    if !flat_cur && !spatial_req && !any_accepted {
        return None;
    }
    if matches!(req, LayerSpec::Feedback { .. }) && flat_cur == spatial_req {
        return None; // blocks are only requested in the representation they were built for
    }
    let m = model_out(cur, req)?;
    if m.iter().product::<usize>() > 4000 {
        return None;
    }
    Some(m)
}

fn decode(tape: &[u32], tier: Tier) -> Case {
    let mut t = Tape::new(tape);
    let kind = if t.chance(1, 5) { 1 } else if t.chance(1, 250) { 2 } else { 0 };
    if kind == 2 {
        // large flat widths at and next to perfect squares
        let r = t.usize(300, 800);
        let delta: i64 = [0i64, 1, -1, 2, 0, r as i64, -2][t.pick(7)];
        let width = ((r * r) as i64 + delta) as usize;
        let req = raw_request(&mut t, false, true); // a spatial request
        return Case { kind, input: vec![1], requests: vec![LayerSpec::Dense { out: width, act: ActK::Linear, bias: false, dropout: None }, req], seed: t.raw(), ident: vec![], tail_dense: false };
    }
    if kind == 0 {
        let input = if t.bool() { vec![t.usize(1, 3), t.usize(1, 8), t.usize(1, 8)] } else { vec![t.usize(1, 30)] };
        let n = t.usize(1, tier.pick(5, 7));
        let mut requests = Vec::new();
        let flat = input.len() == 1;
        let mut cur = input.clone();
        let mut any = false;
        for i in 0..n {
            // one request in five is a feedback block built to fit the shape the model is at
            let req = if t.chance(1, 5) { fb_request(&mut t, &cur).unwrap_or_else(|| raw_request(&mut t, flat, i == 0)) } else { raw_request(&mut t, flat, i == 0) };
            if let Some(next) = model_step(&cur, &req, any) {
                cur = next;
                any = true;
            }
            requests.push(req);
        }
        Case { kind, input, requests, seed: t.raw(), ident: vec![], tail_dense: false }
    } else {
        let variant_flat_first = t.bool();
        let input = if variant_flat_first {
            let r = t.usize(1, 5);
            vec![r * r]
        } else {
            vec![t.usize(1, 3), t.usize(1, 5), t.usize(1, 5)]
        };
        let n = t.usize(1, 3);
        let ident = (0..n).map(|_| t.pick(4) as u8).collect();
        Case { kind, input, requests: vec![], seed: t.raw(), ident, tail_dense: t.bool() }
    }
}

fn shape_dims_of(t: &Tensor) -> Vec<usize> {
    tens::shape_dims(&t.shape)
}

fn check_requests(case: &Case, ev: &mut CaseEv) -> CheckResult {
    let mut net = Network::new(input_shape(&case.input));
    let mut cur = case.input.clone();
    let mut accepted: Vec<LayerSpec> = Vec::new();
    let mut read_as: Vec<Vec<usize>> = Vec::new();
    let mut produced: Vec<Vec<usize>> = Vec::new();
    let mut transition = false;
    let mut odd = false;
    let mut block_skips = false;
    for req in &case.requests {
        let flat_cur = cur.len() == 1;
        let spatial_req = req.is_spatial();
        if flat_cur && spatial_req && accepted.is_empty() {
            continue; // a flat network input cannot start with a spatial layer (refused by design)
        }
        if !flat_cur && !spatial_req && accepted.is_empty() {
            continue; // a spatial network input cannot start with a dense layer (refused by design)
        }
        if flat_cur && spatial_req && isqrt_exact(cur[0]).is_none() {
            // must be rejected when the spatial layer is added
            ev.class("flat non-square -> spatial (must be rejected)");
            let snapshot = net.layers.len();
            let r = catch(|| add_layer(&mut net, req));
            if r.is_ok() || net.layers.len() != snapshot {
                return Err(Fail::known(
                    format!("a {} layer was accepted after a flat output of length {} (not a perfect square); announced shapes: {:?}", req.kind(), cur[0], announced_shapes(&net).ok().and_then(|v| v.last().cloned())),
                    "flat_nonsquare_accepted",
                ));
            }
            continue;
        }
        if matches!(req, LayerSpec::Feedback { .. }) && flat_cur == spatial_req {
            continue; // block built for the other representation (not submitted)
        }
        let model = model_out(&cur, req);
        let Some(model) = model else {
            ev.class("request outside the property (does not fit) - not submitted");
            continue;
        };
        if model.iter().product::<usize>() > 4000 {
            continue; // keep sizes bounded
        }
        let r = catch(|| add_layer(&mut net, req));
        if let Err(p) = r {
            fail!("valid {} request {:?} on shape {:?} was rejected: {}", req.kind(), req, cur, p);
        }
        let reads = if spatial_req { let (c, h, w) = spatial_dims(&cur); vec![c, h, w] } else { vec![count(&cur)] };
        if flat_cur && spatial_req {
            transition = true;
            ev.class("flat perfect square -> spatial");
        }
        if !flat_cur && !spatial_req {
            transition = true;
            ev.class("spatial -> dense (flatten)");
        }
        if let LayerSpec::Feedback { layers, loops, inskips, outskips, .. } = req {
            ev.class(if spatial_req { "feedback block request (spatial)" } else { "feedback block request (flat)" });
            if layers.len() == 2 && spatial_req {
                ev.class("feedback block: shrinking layer + restoring deconvolution");
                odd = true;
            }
            if *outskips && *loops >= 2 {
                ev.class("feedback block with output skips, loops >= 2");
            }
            if *inskips || *outskips {
                block_skips = true;
            }
            if layers.iter().any(|l| matches!(l, LayerSpec::Pool { .. })) {
                // Feedback::backward refuses max-pool layers inside a block loudly ("Unsupported layer type.")
                ev.class("feedback block containing a max-pool (backward unsupported by the library, loud)");
                block_skips = true;
            }
        }
        if let LayerSpec::Conv { cfg, .. } | LayerSpec::Deconv { cfg, .. } = req {
            let (_, h, w) = spatial_dims(&cur);
            if cfg.padding.0 >= cfg.kernel.0 || cfg.padding.1 >= cfg.kernel.1 || (h + 2 * cfg.padding.0) % cfg.stride.0 != 0 || (w + 2 * cfg.padding.1) % cfg.stride.1 != 0 || h % 2 == 1 {
                odd = true;
            }
        }
        read_as.push(reads);
        produced.push(model.clone());
        accepted.push(req.clone());
        cur = model;
    }
    if accepted.is_empty() {
        ev.discard = Some("no request accepted");
        return Ok(());
    }
    // (a) announced shapes
    let ann = announced_shapes(&net).map_err(Fail::new)?;
    for i in 0..accepted.len() {
        ensure!(ann[i].0 == read_as[i], "layer {} ({}): announced input shape {:?}, the preceding output read by this layer is {:?}", i, accepted[i].kind(), ann[i].0, read_as[i]);
        ensure!(ann[i].1 == produced[i], "layer {} ({:?}): announced output shape {:?}, standard size formula gives {:?}", i, accepted[i], ann[i].1, produced[i]);
    }
    // (c) produced shapes on a random input
    let spec = NetSpec { input: case.input.clone(), layers: accepted.clone() };
    let ps = seeded_params(&net, &spec, case.seed, 1, 1.0);
    apply_params(&mut net, &ps);
    let x = payload(case.seed ^ 0xabc, 3, count(&case.input), 1.0);
    let xt = tens::build(&case.input, &x);
    let (pre, act, _, _) = catch(|| net.forward(&xt)).map_err(|p| Fail::new(format!("forward panicked on an accepted layer sequence {:?} (input {:?}): {}", accepted, case.input, p)))?;
    for i in 0..accepted.len() {
        let pd = shape_dims_of(&pre[i]);
        // (for a feedback block forward() records the first inner layer's pre-activation in this slot, an
        // internal placeholder; only the tensor it hands on is the block's output)
        if !matches!(accepted[i], LayerSpec::Feedback { .. }) {
            ensure!(pd == ann[i].1 && tens::consistent(&pre[i]), "layer {} ({:?}) announced {:?} but produced a pre-activation of shape {:?}", i, accepted[i], ann[i].1, pd);
        }
        let next_dense = accepted.get(i + 1).map(|l| !l.is_spatial()).unwrap_or(false);
        let want = if next_dense { vec![count(&ann[i].1)] } else { ann[i].1.clone() };
        let od = shape_dims_of(&act[i + 1]);
        ensure!(od == want && tens::consistent(&act[i + 1]), "layer {} ({:?}) announced {:?}{} but handed on a tensor of shape {:?}", i, accepted[i], ann[i].1, if next_dense { " (flattened for the dense layer that follows)" } else { "" }, od);
        ensure!(tens::flat(&act[i + 1]).len() == count(&ann[i].1), "layer {} handed on {} elements, announced {:?}", i, tens::flat(&act[i + 1]).len(), ann[i].1);
    }
    // (d) gradient shapes equal parameter shapes (the backward pass of blocks with internal skips aborts on a
    // shape assertion - DESIGN section 6 - and is outside the listed properties: not exercised here)
    if block_skips {
        ev.nontrivial = (accepted.len() >= 2 && transition) || odd;
        ev.set_sig(&(0u8, &case.input, &accepted));
        ev.class(format!("accepted{}", accepted.len()));
        return Ok(());
    }
    let out_dims = shape_dims_of(act.last().unwrap());
    let target = tens::build(&out_dims, &payload(case.seed ^ 0x77, 1, count(&out_dims), 1.0));
    let objf = objective::Function::create(lib_obj(ObjK::MSE), None);
    let (_, grads) = lib_gradients(&net, &objf, &xt, &target).map_err(|p| Fail::new(format!("backward pass panicked on an accepted sequence {:?} (input {:?}): {}", accepted, case.input, p)))?;
    let params = collect_params(&net);
    ensure!(grads.len() == params.len(), "backward returned {} gradient tensors for {} parameter tensors", grads.len(), params.len());
    for ((r, g), (_, p)) in grads.iter().zip(params.iter()) {
        ensure!(tens::data_dims(g) == tens::data_dims(p), "gradient of parameter {:?} ({:?}) has shape {:?}, the parameter has {:?}", r, accepted[r.layer], tens::data_dims(g), tens::data_dims(p));
    }
    ev.nontrivial = (accepted.len() >= 2 && transition) || odd;
    ev.set_sig(&(0u8, &case.input, &accepted));
    ev.class(format!("accepted{}", accepted.len()));
    Ok(())
}

/// Identity layers around a flat<->spatial transition must hand the input sequence through.
fn check_identity(case: &Case, ev: &mut CaseEv) -> CheckResult {
    let flat_first = case.input.len() == 1;
    let mut layers: Vec<LayerSpec> = Vec::new();
    let (c, h, w) = if flat_first { let r = isqrt_exact(case.input[0]).unwrap(); (1, r, r) } else { (case.input[0], case.input[1], case.input[2]) };
    let n = c * h * w;
    if flat_first {
        layers.push(LayerSpec::Dense { out: n, act: ActK::Linear, bias: false, dropout: None });
    }
    let one = ConvCfg { filters: c, kernel: (1, 1), stride: (1, 1), padding: (0, 0), dilation: (1, 1) };
    for k in &case.ident {
        layers.push(match k {
            0 => LayerSpec::Conv { cfg: one, act: ActK::Linear, dropout: None },
            1 => LayerSpec::Deconv { cfg: one, act: ActK::Linear, dropout: None },
            2 => LayerSpec::Pool { kernel: (1, 1), stride: (1, 1) },
            _ => LayerSpec::Feedback { layers: vec![LayerSpec::Conv { cfg: one, act: ActK::Linear, dropout: None }], loops: 2, inskips: false, outskips: false, acc: Acc::Mean },
        });
    }
    // a spatial feedback block directly after a dense layer is not supported by the library
    while flat_first && matches!(layers.get(1), Some(LayerSpec::Feedback { .. })) {
        layers.remove(1);
    }
    if flat_first && layers.len() == 1 {
        layers.push(LayerSpec::Conv { cfg: one, act: ActK::Linear, dropout: None });
    }
    if case.tail_dense || !flat_first {
        layers.push(LayerSpec::Dense { out: n, act: ActK::Linear, bias: false, dropout: None });
    }
    let spec = NetSpec { input: case.input.clone(), layers };
    let mut net = build(&spec).map_err(|p| Fail::new(format!("identity network {:?} rejected: {}", spec, p)))?;
    // identity parameters
    let cur = collect_params(&net);
    let ident: Vec<(PRef, Tensor)> = cur
        .iter()
        .map(|(r, t)| {
            let d = tensor_dims(t);
            let v: Vec<f32> = match d.len() {
                2 => (0..d[0] * d[1]).map(|i| if i / d[1] == i % d[1] { 1.0 } else { 0.0 }).collect(),
                3 => {
                    // kernel number f = r.tensor: channel f gets 1
                    (0..d[0]).map(|ch| if ch == r.tensor { 1.0 } else { 0.0 }).collect()
                }
                _ => vec![0.0; d.iter().product()],
            };
            (*r, tens::build(&d, &v))
        })
        .collect();
    apply_params(&mut net, &ident);
    let x: Vec<f32> = (0..n).map(|i| (i as f32 + 1.0) * 1.25 * if i % 3 == 0 { -1.0 } else { 1.0 }).collect();
    let xt = tens::build(&case.input, &x);
    let out = catch(|| net.predict(&xt)).map_err(|p| Fail::new(format!("identity network {:?} panicked in predict: {}", spec, p)))?;
    let of = tens::flat(&out);
    if let Some(i) = tens::first_bit_diff(&of, &x) {
        fail!("identity layers around a flat<->spatial transition changed the element sequence at position {} ({:?} vs {:?}); network {:?}", i, of.get(i), x.get(i), spec);
    }
    // the same numbers handed over as a flat vector (a convolution / deconvolution / max-pool splits a flat input
    // into its c x h x w input shape; a feedback block insists on the tensor form)
    if !flat_first && !matches!(spec.layers[0], LayerSpec::Feedback { .. }) {
        let out2 = catch(|| net.predict(&Tensor::single(x.clone()))).map_err(|p| Fail::new(format!("identity network {:?} panicked in predict when the {}x{}x{} input was given as a flat vector: {}", spec, c, h, w, p)))?;
        if let Some(i) = tens::first_bit_diff(&tens::flat(&out2), &x) {
            fail!("identity layers changed the element sequence at position {} when the {}x{}x{} input was given as a flat vector; network {:?}", i, c, h, w, spec);
        }
        ev.class("identity: spatial input also given flat");
    }
    let last_spatial = spec.layers.last().unwrap().is_spatial();
    let want = if last_spatial { Shape::Triple(c, h, w) } else { Shape::Single(n) };
    ensure!(out.shape == want, "identity network output shape {:?}, expected {:?}", out.shape, want);
    if last_spatial {
        let d = out.as_triple();
        for cc in 0..c {
            for hh in 0..h {
                for ww in 0..w {
                    ensure!(d[cc][hh][ww].to_bits() == x[(cc * h + hh) * w + ww].to_bits(), "flat vector not read as {}x{}x{} in row-major order at [{}][{}][{}]", c, h, w, cc, hh, ww);
                }
            }
        }
    }
    ev.class(if flat_first { "identity: flat -> spatial" } else { "identity: spatial -> flat" });
    ev.nontrivial = n >= 2;
    ev.set_sig(&(1u8, &spec));
    Ok(())
}

/// Large flat widths: r*r must be accepted in front of a spatial layer and read as 1 x r x r,
/// anything else next to it must be rejected.
fn check_large_square(case: &Case, ev: &mut CaseEv) -> CheckResult {
    let LayerSpec::Dense { out: width, .. } = &case.requests[0] else { panic!("dense first") };
    let width = *width;
    let req = &case.requests[1];
    let mut net = Network::new(input_shape(&case.input));
    catch(std::panic::AssertUnwindSafe(|| add_layer(&mut net, &case.requests[0]))).map_err(|p| Fail::new(format!("dense layer of width {} rejected: {}", width, p)))?;
    let root = isqrt_exact(width);
    ev.class(if root.is_some() { "large perfect square -> spatial" } else { "large non-square -> spatial (must be rejected)" });
    let fits = root.map(|r| model_out(&[1, r, r], req).is_some()).unwrap_or(false);
    let r = catch(std::panic::AssertUnwindSafe(|| add_layer(&mut net, req)));
    match (root, r) {
        (None, Ok(())) => {
            return Err(Fail::known(
                format!("a {} layer was accepted after a flat output of length {} (not a perfect square); announced shapes: {:?}", req.kind(), width, announced_shapes(&net).ok().and_then(|v| v.last().cloned())),
                "flat_nonsquare_accepted",
            ))
        }
        (None, Err(_)) => {}
        (Some(rt), Ok(())) => {
            let ann = announced_shapes(&net).map_err(Fail::new)?;
            ensure!(ann[1].0 == vec![1, rt, rt], "flat width {} = {}^2 announced as {:?}, expected [1, {}, {}]", width, rt, ann[1].0, rt, rt);
            if let Some(m) = model_out(&[1, rt, rt], req) {
                ensure!(ann[1].1 == m, "layer {:?} on 1x{}x{}: announced output {:?}, standard formula {:?}", req, rt, rt, ann[1].1, m);
            }
        }
        (Some(rt), Err(p)) => {
            ensure!(!fits, "valid {} request {:?} after a flat width {} = {}^2 was rejected: {}", req.kind(), req, width, rt, p);
        }
    }
    ev.nontrivial = true;
    ev.set_sig(&(2u8, width, req));
    Ok(())
}

pub struct C08(pub Tier);

impl Prop for C08 {
    fn id(&self) -> &'static str {
        "C08"
    }
    fn tape_len(&self, _t: Tier) -> usize {
        96
    }
    fn cases(&self, t: Tier) -> usize {
        t.pick(500_000, 40_000_000)
    }
    fn rule(&self) -> String {
        "tape-decoded (4/5) input shape (flat 1..30 or c 1-3 x h,w 1-8) + up to 5 (thorough 7) raw layer requests (dense width 1..30; convolution kernel 1-4, stride 1-3, padding 0..kernel+1, dilation 1-3; deconvolution kernel 1-4, stride 1-3, padding 0-3; pool kernel 1-4, stride 1-4; one request in five is a feedback block built to return to the shape the model is at: flat n -> n / n -> m -> n, or spatial: a same-size convolution (odd kernel <= 5, dilation <= 2) / deconvolution, or a shrinking convolution / max-pool followed by the restoring deconvolution; loops 1-3, skip flags, five accumulations), submitted one by one next to an independent shape model (standard formulas): model-valid requests must be accepted and announced (parsed from the Display text) as the model says, a spatial layer after a flat non-perfect-square width must be rejected, requests that do not fit are outside the property and are not submitted; forward on a random input must produce the announced shape for every layer (flattened where a dense layer follows), backward gradient tensors must have the parameters' shapes (not exercised when a block has internal skips or contains a max-pool: the library's block backward aborts / refuses those loudly). (1/250 of the rest) flat widths r*r + {0, +-1, +-2, r} with r in 300..800 in front of a spatial layer: squares accepted and announced as 1 x r x r, all others rejected. (1/5) identity networks (1x1 unit kernels, 1x1 pools, identity dense, identity feedback block) around a flat->spatial or spatial->flat transition must reproduce the input sequence bitwise in row-major order. Non-trivial: depth >= 2 with a flat<->spatial transition, or an odd size / non-dividing stride / padding >= kernel, or an identity network with >= 2 elements. Distinct = (input shape, accepted request sequence).".into()
    }
    fn run_case(&self, tape: &[u32], ev: &mut CaseEv) -> CheckResult {
        let c = decode(tape, self.0);
        match c.kind {
            0 => check_requests(&c, ev),
            2 => check_large_square(&c, ev),
            _ => check_identity(&c, ev),
        }
    }
    fn describe(&self, tape: &[u32]) -> Value {
        json!(format!("{:?}", decode(tape, self.0)))
    }
}

pub fn run(eng: &Engine, replay_path: Option<&str>) -> i32 {
    let p = C08(eng.tier);
    if let Some(path) = replay_path {
        return replay(&p, eng, path);
    }
    standard_run(&p, eng)
}
