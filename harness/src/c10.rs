//! C10 — feedback blocks keep their repeated layers weight-tied.

use crate::c03::Kind;
use crate::engine::*;
use crate::net::*;
use crate::refmodel::{ActK, ObjK};
use crate::tape::{payload, Tape};
use crate::tens;
use crate::{ensure, fail};
use neurons::network::{Layer, Network};
use neurons::tensor::Tensor;
use serde_json::{json, Value};

#[derive(Debug, Clone)]
struct Call {
    batch: usize,
    epochs: i32,
    n: usize,
    dseed: u32,
    /// early-stopping tolerance when validation data is passed (None = no validation data)
    val_tol: Option<i32>,
}

#[derive(Debug, Clone)]
struct Case {
    spec: NetSpec,
    block: usize,
    kind: Kind,
    calls: Vec<Call>,
    wseed: u32,
}

pub fn gen_optimizer(t: &mut Tape) -> Kind {
    match t.pick(5) {
        0 => Kind::SGD { lr: [0.01f32, 0.05, 0.1, 1e-5, 1e-4][t.pick(5)], decay: if t.bool() { Some(0.01) } else { None } },
        1 => Kind::SGDM { lr: [0.01f32, 0.05, 1e-5][t.pick(3)], momentum: 0.9, dampening: if t.bool() { 0.1 } else { 0.0 }, decay: if t.bool() { Some(0.01) } else { None } },
        2 => Kind::Adam { lr: [0.001f32, 0.01][t.pick(2)], b1: 0.9, b2: 0.999, eps: 1e-8, decay: if t.bool() { Some(0.01) } else { None } },
        3 => Kind::AdamW { lr: [0.001f32, 0.01][t.pick(2)], b1: 0.9, b2: 0.999, eps: 1e-8, decay: 0.01 },
        _ => Kind::RMSprop { lr: [0.001f32, 0.01][t.pick(2)], alpha: 0.9, eps: 1e-7, decay: if t.bool() { Some(0.01) } else { None }, momentum: if t.bool() { Some(0.5) } else { None }, centered: t.bool() },
    }
}

fn decode(tape: &[u32]) -> Case {
    let mut t = Tape::new(tape);
    // one case in 40: flat blocks whose weight matrices have 65-140 rows / columns (beyond one 64-row chunk)
    let wide = t.chance(1, 40);
    let o = GenOpts { acts: &[ActK::Linear, ActK::Tanh, ActK::Sigmoid, ActK::Leaky], max_hw: 4, max_c: 2, max_dense: if wide { 140 } else { 5 }, allow_feedback: false, ..GenOpts::default() };
    let input = if wide { vec![t.usize(65, 140)] } else if t.bool() { vec![t.usize(1, 2), t.usize(1, 4), t.usize(1, 4)] } else { vec![t.usize(1, 5)] };
    let mut layers = Vec::new();
    let mut cur = input.clone();
    if t.chance(1, 3) {
        // prefix layer that keeps the representation (dense for flat, same-size conv for spatial)
        let l = if cur.len() == 1 { LayerSpec::Dense { out: t.usize(1, 5), act: gen_act(&mut t, &o), bias: t.bool(), dropout: None } } else { let f = t.usize(1, 2); gen_same_size(&mut t, f, cur[1], cur[2], &o) };
        cur = model_out(&cur, &l).unwrap();
        layers.push(l);
    }
    let block = layers.len();
    let with_skips = t.chance(1, 4);
    let mut fb = gen_feedback(&mut t, &cur, &o, with_skips, false);
    if let LayerSpec::Feedback { loops, acc, layers: inner, .. } = &mut fb {
        *loops = t.usize(1, 4);
        *acc = [Acc::Add, Acc::Sub, Acc::Mul, Acc::Mean][t.pick(4)];
        // up to three layers in flat blocks
        if cur.len() == 1 && inner.len() == 2 && t.bool() {
            let m = t.usize(1, 5);
            let n = cur[0];
            inner.insert(1, LayerSpec::Dense { out: m, act: gen_act(&mut t, &o), bias: t.bool(), dropout: None });
            inner[2] = LayerSpec::Dense { out: n, act: gen_act(&mut t, &o), bias: t.bool(), dropout: None };
        }
    }
    layers.push(fb);
    let tail_dense = t.bool();
    if tail_dense {
        layers.push(LayerSpec::Dense { out: t.usize(1, 4), act: gen_act(&mut t, &o), bias: t.bool(), dropout: None });
    }
    let kind = gen_optimizer(&mut t);
    let ncalls = t.usize(1, 4);
    let calls: Vec<Call> = (0..ncalls).map(|_| Call { batch: t.usize(1, 4), epochs: t.usize(1, 4) as i32, n: t.usize(1, 6), dseed: t.raw(), val_tol: [None, None, Some(1), Some(2), Some(1000)][t.pick(5)] }).collect();
    // validate() is only implemented for networks that end in a dense layer
    let calls = calls.into_iter().map(|mut c| { if !tail_dense { c.val_tol = None; } c }).collect();
    let wseed = t.raw();
    // (drawn last) one case in four: a second block of the same kind directly behind the first (same layer list and
    // coupling, 2-3 repetitions, no internal skips) - every block of a network has to stay tied
    if t.chance(1, 4) {
        let mut second = layers[block].clone();
        if let LayerSpec::Feedback { loops, inskips, outskips, .. } = &mut second {
            *loops = t.usize(2, 3);
            *inskips = false;
            *outskips = false;
        }
        layers.insert(block + 1, second);
    }
    Case { spec: NetSpec { input, layers }, block, kind, calls, wseed }
}

fn model_param_count(spec: &NetSpec) -> usize {
    fn layer_count(l: &LayerSpec, cur: &[usize]) -> usize {
        match l {
            LayerSpec::Dense { out, bias, .. } => count(cur) * out + if *bias { *out } else { 0 },
            LayerSpec::Conv { cfg, .. } | LayerSpec::Deconv { cfg, .. } => {
                let (c, _, _) = spatial_dims(cur);
                cfg.filters * c * cfg.kernel.0 * cfg.kernel.1
            }
            LayerSpec::Pool { .. } => 0,
            LayerSpec::Feedback { layers, .. } => {
                let mut c = cur.to_vec();
                let mut s = 0;
                for il in layers {
                    s += layer_count(il, &c);
                    c = model_out(&c, il).unwrap();
                }
                s
            }
        }
    }
    let mut cur = spec.input.clone();
    let mut total = 0;
    for l in &spec.layers {
        total += layer_count(l, &cur);
        cur = model_out(&cur, l).unwrap();
    }
    total
}

fn announced_parameters(net: &Network) -> Option<usize> {
    let text = format!("{}", net);
    text.lines().rev().find_map(|l| l.trim().strip_prefix("parameters: ").and_then(|v| v.trim().parse::<usize>().ok()))
}

fn tied(net: &Network, block: usize, len: usize, loops: usize) -> Result<(), String> {
    let Layer::Feedback(fb) = &net.layers[block] else { return Err("not a feedback layer".into()) };
    if fb.layers.len() != len * loops {
        return Err(format!("block holds {} unrolled layers, expected {} x {}", fb.layers.len(), len, loops));
    }
    for j in 0..len {
        let base = neurons::verif::layer_params(&fb.layers[j]);
        for rep in 1..loops {
            let other = neurons::verif::layer_params(&fb.layers[rep * len + j]);
            if base.len() != other.len() {
                return Err(format!("repetition {} of block layer {} has {} parameter tensors, the first has {}", rep, j, other.len(), base.len()));
            }
            for (k, (a, b)) in base.iter().zip(other.iter()).enumerate() {
                if let Some(i) = tens::first_bit_diff(&tens::flat(a), &tens::flat(b)) {
                    return Err(format!(
                        "repetition {} of block layer {} differs from the first repetition in parameter tensor {} element {} ({:e} vs {:e})",
                        rep, j, k, i, tens::flat(b)[i], tens::flat(a)[i]
                    ));
                }
            }
        }
    }
    Ok(())
}

fn check(case: &Case, ev: &mut CaseEv) -> CheckResult {
    let spec = &case.spec;
    let LayerSpec::Feedback { layers: inner, loops, acc, inskips, outskips } = &spec.layers[case.block] else { panic!("block") };
    let (len, loops, acc) = (inner.len(), *loops, *acc);
    let kernel_block = inner.iter().any(|l| l.is_spatial());
    ev.class(format!("acc:{:?}", acc));
    ev.class(format!("optimizer:{}", case.kind.name()));
    ev.class(format!("loops{}", loops));
    if matches!(spec.layers.get(case.block + 1), Some(LayerSpec::Feedback { .. })) {
        ev.class("two blocks in one network");
    }
    ev.class(if kernel_block { "kernel block" } else { "dense block" });
    if case.spec.input.len() == 1 && case.spec.input[0] > 64 {
        ev.class("wide dense block (65-140 rows)");
    }
    if *inskips || *outskips {
        ev.class("block with skips");
    }
    let mut net = build(spec).map_err(|p| Fail::new(format!("valid network rejected: {} ({:?})", p, spec)))?;
    // tied at creation (random initial weights)
    tied(&net, case.block, len, loops).map_err(|m| Fail::new(format!("at creation: {} ({:?})", m, spec.layers[case.block])))?;
    let ann = announced_parameters(&net);
    let model = model_param_count(spec);
    ensure!(ann == Some(model), "announced parameter count {:?}, counting each shared parameter once gives {} ({:?})", ann, model, spec);
    let ps = seeded_params(&net, spec, case.wseed, 1, 0.7);
    apply_params(&mut net, &ps);
    net.set_objective(lib_obj(ObjK::MSE), None);
    let kind = case.kind.clone();
    catch(std::panic::AssertUnwindSafe(|| net.set_optimizer(kind.create()))).map_err(|p| Fail::new(format!("set_optimizer panicked: {p}")))?;
    let n_in = count(&spec.input);
    let out_dims = final_dims(spec);
    let unsupported = kernel_block && matches!(acc, Acc::Sub | Acc::Mul);
    let before: Vec<Vec<f32>> = collect_params(&net).iter().map(|(_, t)| tens::flat(t)).collect();
    let mut changed = false;
    for (ci, call) in case.calls.iter().enumerate() {
        // some samples are all-zero (a bias-free block then receives an exactly zero gradient)
        let xs: Vec<Tensor> = (0..call.n)
            .map(|i| {
                let zero = (call.dseed >> (i % 16)) & 3 == 0;
                tens::build(&spec.input, &if zero { vec![0.0; n_in] } else { payload(call.dseed.wrapping_add(i as u32 * 13), 1, n_in, 1.0) })
            })
            .collect();
        let ys: Vec<Tensor> = (0..call.n).map(|i| tens::build(&out_dims, &payload(call.dseed.wrapping_add(500 + i as u32 * 7), 1, count(&out_dims), 1.0))).collect();
        let (xr, yr): (Vec<&Tensor>, Vec<&Tensor>) = (xs.iter().collect(), ys.iter().collect());
        // validation data = the training data with negated targets (the loss then rises while training falls)
        let vys: Vec<Tensor> = ys.iter().map(|y| { let d = tens::shape_dims(&y.shape); tens::build(&d, &tens::flat(y).iter().map(|v| -v).collect::<Vec<f32>>()) }).collect();
        let vyr: Vec<&Tensor> = vys.iter().collect();
        if call.val_tol.is_some() {
            ev.class("learn with validation data");
        }
        let r = catch(std::panic::AssertUnwindSafe(|| match call.val_tol {
            Some(tol) => net.learn(&xr, &yr, Some((&xr, &vyr, tol)), call.batch, call.epochs, None),
            None => net.learn(&xr, &yr, None, call.batch, call.epochs, None),
        }));
        match r {
            Ok(_) => {}
            Err(p) => {
                if p.contains("Loss is NaN") {
                    ev.discard = Some("training diverged to NaN (library aborts)");
                    return Ok(());
                }
                if unsupported && (p.contains("Invalid sub") || p.contains("Invalid mul")) {
                    ev.class("unsupported-coupling (refused loudly)");
                    ev.discard = Some("unsupported coupling for kernel blocks");
                    return Ok(());
                }
                if (*inskips || *outskips) && p.contains("assertion failed: `left == right`") {
                    // Internal skips are outside C10's quantifier (and outside C01's class): the block's
                    // backward pass adds skip gradients one layer off and aborts on the shape assertion
                    // when the block's inner shapes differ. Recorded in DESIGN.md as an observation.
                    ev.discard = Some("block with internal skips: backward aborts on a shape assertion (outside the property)");
                    return Ok(());
                }
                fail!("learn call {} panicked: {} (block {:?}, optimizer {:?})", ci, p, spec.layers[case.block], case.kind);
            }
        }
        let now = collect_params(&net);
        if now.iter().any(|(_, t)| tens::flat(t).iter().any(|v| !v.is_finite())) {
            ev.discard = Some("non-finite weights");
            return Ok(());
        }
        if let Some(LayerSpec::Feedback { layers: inner2, loops: loops2, .. }) = spec.layers.get(case.block + 1) {
            if let Err(m) = tied(&net, case.block + 1, inner2.len(), *loops2) {
                fail!("after learn call {} ({} epochs, batch {}, {} samples, optimizer {}): second block of the network: {}; block {:?}", ci, call.epochs, call.batch, call.n, case.kind.name(), m, spec.layers[case.block + 1]);
            }
        }
        if let Err(m) = tied(&net, case.block, len, loops) {
            fail!("after learn call {} ({} epochs, batch {}, {} samples, optimizer {}): {}; block {:?}", ci, call.epochs, call.batch, call.n, case.kind.name(), m, spec.layers[case.block]);
        }
        ensure!(announced_parameters(&net) == Some(model), "announced parameter count changed to {:?} after training (model {})", announced_parameters(&net), model);
        changed |= now.iter().zip(before.iter()).any(|((_, t), b)| tens::first_bit_diff(&tens::flat(t), b).is_some());
    }
    ev.nontrivial = loops >= 2 && changed;
    ev.set_sig(&(spec, format!("{:?}", case.kind), case.calls.iter().map(|c| (c.batch, c.epochs, c.n)).collect::<Vec<_>>()));
    Ok(())
}

pub struct C10;

impl Prop for C10 {
    fn id(&self) -> &'static str {
        "C10"
    }
    fn tape_len(&self, _t: Tier) -> usize {
        80
    }
    fn cases(&self, t: Tier) -> usize {
        t.pick(60_000, 4_000_000)
    }
    fn rayon_threads(&self) -> Option<usize> {
        Some(2)
    }
    fn rule(&self) -> String {
        "tape-decoded history: small network = optional shape-keeping prefix layer + feedback block (1-3 dense layers, or 1-2 shape-preserving convolution / deconvolution layers; bias on/off; one case in 40 with widths 65-140; loops 1-4; any skip flags; coupling accumulation in {add, subtract, multiply, mean}) (in one case of four followed by a second block of the same kind with 2-3 repetitions, which has to stay tied as well) + optional dense layer; one of five optimizers with option variants; 1-4 learn() calls with batch 1-4, 1-4 epochs, with or without validation data (early-stopping tolerance 1, 2 or 1000), 1-6 samples (a quarter of them all-zero), learning rates from 1e-5 to 0.1. Invariant after creation and after every call: all unrolled repetitions of every block layer hold bit-identical weights, biases and kernels (read through the hooks), and the `parameters:` number of the Display text equals the model count with each shared parameter once. Kernel blocks with subtract / multiply coupling abort the first step with 'Invalid sub./mul.' (refused loudly: classified unsupported, not asserted on); NaN-diverged runs are discards. Non-trivial: loops >= 2 and weights changed. Distinct = (block and network specification, optimizer, call pattern).".into()
    }
    fn assumptions(&self) -> Vec<String> {
        vec!["'supported coupling' follows the code's own loud refusals: Overwrite is unimplemented!, subtract/multiply for kernel blocks panic before any state is observable".into()]
    }
    fn run_case(&self, tape: &[u32], ev: &mut CaseEv) -> CheckResult {
        check(&decode(tape), ev)
    }
    fn describe(&self, tape: &[u32]) -> Value {
        let c = decode(tape);
        json!({"spec": format!("{:?}", c.spec), "optimizer": format!("{:?}", c.kind), "calls": format!("{:?}", c.calls)})
    }
}

pub fn run(eng: &Engine, replay_path: Option<&str>) -> i32 {
    let p = C10;
    if let Some(path) = replay_path {
        return replay(&p, eng, path);
    }
    standard_run(&p, eng)
}
