//! C18 — the random generator stays in range and shuffling is a safe permutation.

use crate::engine::*;
use crate::tape::{enc_pick, Tape};
use crate::{ensure, fail};
use neurons::random::Generator;
use neurons::tensor::{Data, Shape, Tensor};
use rayon::prelude::*;
use serde_json::{json, Value};
use std::sync::atomic::{AtomicU64, Ordering};

pub const M: u64 = (1u64 << 31) - 1;
pub const A: u64 = 48271;

fn modpow(mut b: u64, mut e: u64) -> u64 {
    let mut r = 1u64;
    b %= M;
    while e > 0 {
        if e & 1 == 1 {
            r = r * b % M;
        }
        b = b * b % M;
        e >>= 1;
    }
    r
}

/// The seed whose first generated state is `next` (1 <= next <= M-1).
pub fn prev_state(next: u64) -> u64 {
    let inv = modpow(A, M - 2);
    next % M * inv % M
}

#[derive(Debug, Clone)]
enum Case {
    /// generate(min,max) at the generator state `next`
    Range { next: u64, min: f32, max: f32 },
    /// two generators from one seed agree for `n` draws
    Pure { seed: u64, n: usize, min: f32, max: f32 },
    /// shuffle a vector
    Shuffle { seed: u64, values: Vec<usize> },
    /// Tensor::random (`poke`: a request for an unsupported shape is made - and survived - first)
    Random { shape: Vec<usize>, min: f32, max: f32, poke: bool },
    /// one generator object serves two intervals in a row; the second draw happens at state `next2`
    Mixed { next2: u64, first: (f32, f32), second: (f32, f32) },
    /// create(seed) of any magnitude then draw
    Seed { seed: u64, n: usize },
}

const KINDS: usize = 6;

fn decode_interval(t: &mut Tape) -> (f32, f32) {
    match t.pick(9) {
        8 => {
            // intervals whose width overflows single precision
            let a = t.f32_in(1e38, 3.4e38);
            let b = t.f32_in(1e38, 3.4e38);
            (-a, b)
        }
        0 => (0.0, 1.0),
        1 => (-1.0, 1.0),
        2 => {
            let n = t.usize(1, 2000);
            (0.0, n as f32)
        }
        3 => {
            let v = t.f32_in(-100.0, 100.0);
            (v, v)
        }
        4 => {
            // tiny interval around a value
            let v = t.f32_in(-10.0, 10.0);
            let k = t.usize(1, 64);
            let hi = f32::from_bits(if v >= 0.0 { v.to_bits() + k as u32 } else { v.to_bits() - (k as u32).min(v.to_bits() & 0x7fffff) });
            if v <= hi {
                (v, hi)
            } else {
                (hi, v)
            }
        }
        5 => {
            // mixed magnitudes
            let big = -(10f32.powi(t.int(1, 7) as i32)) * t.f32_in(0.5, 1.5);
            let small = t.f32_in(0.0, 1.0);
            (big, small)
        }
        6 => {
            let a = t.f32_in(-1000.0, 0.0);
            let b = t.f32_in(-1000.0, 0.0);
            (a.min(b), a.max(b))
        }
        _ => {
            // non-dyadic decimal-looking bounds
            let a = t.int(-50, 50) as f32 / 10.0;
            let w = t.int(0, 100) as f32 / 10.0;
            (a, a + w)
        }
    }
}

fn decode_state(t: &mut Tape) -> u64 {
    match t.pick(4) {
        0 => 1 + t.usize(0, 1 << 16) as u64,              // low end
        1 => M - 1 - t.usize(0, 1 << 16) as u64,          // high end
        2 => M - 1 - t.usize(0, 200) as u64,              // the very top
        _ => (t.raw() as u64 * 2 + (t.raw() as u64 & 1)) % (M - 1) + 1,
    }
}

fn decode_seed(t: &mut Tape) -> u64 {
    match t.pick(7) {
        0 => t.usize(0, 100_000) as u64,
        1 => ((t.raw() as u64) << 32) | t.raw() as u64,
        2 => u64::MAX - t.usize(0, 1000) as u64,
        3 => (u64::MAX / A) - 500 + t.usize(0, 1000) as u64, // around the multiplication overflow edge
        4 => 1_700_000_000_000_000_000 + ((t.raw() as u64) << 20), // nanosecond timestamps
        5 => prev_state(M - 1 - t.usize(0, 70) as u64),     // seed leading straight to a top state
        _ => M - 2 + t.usize(0, 4) as u64,
    }
}

fn decode(tape: &[u32]) -> Case {
    let mut t = Tape::new(tape);
    match t.pick(KINDS) {
        0 => {
            let next = decode_state(&mut t);
            let (min, max) = decode_interval(&mut t);
            Case::Range { next, min, max }
        }
        1 => {
            let seed = decode_seed(&mut t);
            let n = t.usize(1, 200);
            let (min, max) = decode_interval(&mut t);
            Case::Pure { seed, n, min, max }
        }
        2 => {
            let seed = decode_seed(&mut t);
            let mut len = if t.chance(1, 8) { t.usize(65, 1500) } else { t.usize(0, 64) };
            // one shuffle in 4000 is longer than 2^24 elements (vector lengths beyond exact f32 integers)
            if t.chance(1, 4000) {
                len = (1usize << 24) + t.usize(1, 9);
            }
            let distinct = t.usize(1, 8);
            let dup = t.bool();
            let values = (0..len).map(|i| if dup { (i * 7 + 3) % distinct } else { i }).collect();
            Case::Shuffle { seed, values }
        }
        3 => {
            let rank = t.usize(1, 4);
            // a dimension of size 0 behind a non-zero one occurs in one case of eight
            let zero_at = if t.chance(1, 8) { Some(t.pick(rank)) } else { None };
            let shape = (0..rank).map(|i| if zero_at == Some(i) && i > 0 { 0 } else { t.usize(1, 5) }).collect();
            let (min, max) = decode_interval(&mut t);
            Case::Random { shape, min, max, poke: t.chance(1, 10) }
        }
        4 => {
            let next2 = decode_state(&mut t);
            // half of the cases: both intervals have decimal end points (tenths, each rounded on its own) and the same
            // number of tenths between them, e.g. (0, 1) then (-0.9, 0.1): the single-precision widths are equal
            // although the exact widths are not (anything a generator remembers per width must not leak across
            // intervals); otherwise two independent intervals
            let (first, second) = if t.bool() {
                let j = t.int(1, 40);
                let (k1, k2) = (t.int(-30, 30), t.int(-30, 30));
                ((k1 as f32 / 10.0, (k1 + j) as f32 / 10.0), (k2 as f32 / 10.0, (k2 + j) as f32 / 10.0))
            } else {
                (decode_interval(&mut t), decode_interval(&mut t))
            };
            Case::Mixed { next2, first, second }
        }
        _ => {
            let seed = decode_seed(&mut t);
            let n = t.usize(1, 50);
            Case::Seed { seed, n }
        }
    }
}

fn check_range(next: u64, min: f32, max: f32) -> CheckResult {
    let seed = prev_state(next);
    let v = catch(|| Generator::create(seed).generate(min, max));
    match v {
        Err(p) => fail!("generate({min:e},{max:e}) panicked at state {next}: {p}"),
        Ok(v) => {
            ensure!(
                v >= min && v <= max,
                "generate({:e},{:e}) at state {} (seed {}) returned {:e} outside [min,max]",
                min, max, next, seed, v
            );
        }
    }
    Ok(())
}

fn flat(t: &Tensor) -> Vec<f32> {
    fn rec(d: &Data, out: &mut Vec<f32>) {
        match d {
            Data::Single(v) => out.extend(v),
            Data::Double(v) => v.iter().for_each(|r| out.extend(r)),
            Data::Triple(v) => v.iter().for_each(|c| c.iter().for_each(|r| out.extend(r))),
            Data::Quadruple(v) => v.iter().for_each(|f| f.iter().for_each(|c| c.iter().for_each(|r| out.extend(r)))),
            _ => panic!("unexpected data"),
        }
    }
    let mut out = Vec::new();
    rec(&t.data, &mut out);
    out
}

fn check(case: &Case, ev: &mut CaseEv) -> CheckResult {
    match case {
        Case::Range { next, min, max } => {
            ev.class("range");
            let near_end = *next <= 1 << 16 || *next >= M - 1 - (1 << 16);
            if near_end {
                ev.class("range:state-near-end");
            }
            ev.nontrivial = near_end;
            ev.set_sig(&("range", next, min.to_bits(), max.to_bits()));
            check_range(*next, *min, *max)
        }
        Case::Pure { seed, n, min, max } => {
            ev.class("purity");
            ev.nontrivial = *seed >= 1 << 32;
            ev.set_sig(&("pure", seed, n));
            let run = |s: u64| catch(|| {
                let mut g = Generator::create(s);
                (0..*n).map(|_| g.generate(*min, *max).to_bits()).collect::<Vec<u32>>()
            });
            match (run(*seed), run(*seed)) {
                (Ok(a), Ok(b)) => {
                    ensure!(a == b, "two generators created from seed {} disagree", seed);
                    for v in a {
                        let v = f32::from_bits(v);
                        ensure!(v >= *min && v <= *max, "seed {}: generate({:e},{:e}) returned {:e}", seed, min, max, v);
                    }
                    Ok(())
                }
                (Err(p), _) | (_, Err(p)) => fail!("generator created from seed {} panicked while drawing: {}", seed, p),
            }
        }
        Case::Shuffle { seed, values } => {
            ev.class("shuffle");
            ev.class(format!("shuffle:len{}", match values.len() { 0 => "0", 1 => "1", 2..=8 => "2-8", 9..=64 => "9-64", 65..=1500 => ">64", _ => ">2^24" }));
            ev.nontrivial = values.len() >= 2;
            ev.set_sig(&("shuffle", seed, values.len()));
            let mut v = values.clone();
            // one shuffle in five is the second call on its generator object: a longer vector was shuffled first
            // (nothing of an earlier call may be left in the generator besides its state)
            let prior: Option<usize> = if values.len() < 2000 && seed % 5 == 0 { Some(values.len() + 1 + (seed % 37) as usize) } else { None };
            if prior.is_some() {
                ev.class("shuffle after a longer shuffle on the same generator");
            }
            let r = catch(|| {
                let mut g = Generator::create(*seed);
                if let Some(pl) = prior {
                    let mut pv: Vec<usize> = (0..pl).collect();
                    g.shuffle(&mut pv);
                    let mut sorted = pv.clone();
                    sorted.sort();
                    assert!(sorted.iter().enumerate().all(|(i, x)| i == *x), "shuffle of 0..{} is not a permutation: {:?}", pl, pv);
                }
                g.shuffle(&mut v);
                v
            });
            match r {
                Err(p) => fail!("shuffle of {} elements with seed {} panicked: {}", values.len(), seed, p),
                Ok(out) => {
                    if values.len() > 100_000 {
                        // multiset comparison by counting (values are < len)
                        let mut cnt = vec![0i32; values.len()];
                        values.iter().for_each(|v| cnt[*v] += 1);
                        out.iter().for_each(|v| if *v < cnt.len() { cnt[*v] -= 1 });
                        ensure!(out.len() == values.len() && cnt.iter().all(|c| *c == 0), "shuffle of {} elements with seed {} is not a permutation", values.len(), seed);
                        return Ok(());
                    }
                    let mut a = out.clone();
                    let mut b = values.clone();
                    a.sort();
                    b.sort();
                    ensure!(a == b, "shuffle with seed {} is not a permutation: in {:?} out {:?}", seed, values, out);
                    Ok(())
                }
            }
        }
        Case::Mixed { next2, first, second } => {
            ev.class("one generator, two intervals");
            let same_width = (first.1 - first.0).to_bits() == (second.1 - second.0).to_bits();
            if same_width {
                ev.class("one generator, two intervals of equal single-precision width");
            }
            ev.nontrivial = *next2 >= M - (1 << 16) || *next2 <= 1 << 16;
            ev.set_sig(&("mixed", next2, first.0.to_bits(), first.1.to_bits(), second.0.to_bits(), second.1.to_bits()));
            if !(second.0 <= second.1 && second.0.is_finite() && second.1.is_finite() && first.0 <= first.1) {
                ev.discard = Some("degenerate interval pair");
                return Ok(());
            }
            let seed = prev_state(prev_state(*next2));
            let r = catch(|| {
                let mut g = Generator::create(seed);
                let a = g.generate(first.0, first.1);
                let b = g.generate(second.0, second.1);
                (a, b)
            });
            match r {
                Err(p) => fail!("generate panicked on the second of two intervals ({:e},{:e}) then ({:e},{:e}) at state {}: {}", first.0, first.1, second.0, second.1, next2, p),
                Ok((a, b)) => {
                    ensure!(a >= first.0 && a <= first.1, "generate({:e},{:e}) returned {:e} outside [min,max]", first.0, first.1, a);
                    ensure!(
                        b >= second.0 && b <= second.1,
                        "one generator: generate({:e},{:e}) then generate({:e},{:e}) at state {} returned {:e} outside [min,max]",
                        first.0, first.1, second.0, second.1, next2, b
                    );
                }
            }
            Ok(())
        }
        Case::Random { shape, min, max, poke } => {
            ev.class(format!("tensor-random:rank{}", shape.len()));
            if *poke {
                // a request the library refuses (unsupported shape), survived by the caller, must not disturb later requests
                let _ = catch(|| Tensor::random(Shape::Nested(2), *min, *max));
                ev.class("tensor-random after a refused request");
            }
            ev.nontrivial = shape.iter().product::<usize>() >= 2;
            ev.set_sig(&("random", shape, min.to_bits(), max.to_bits()));
            let sh = match shape.len() {
                1 => Shape::Single(shape[0]),
                2 => Shape::Double(shape[0], shape[1]),
                3 => Shape::Triple(shape[0], shape[1], shape[2]),
                _ => Shape::Quadruple(shape[0], shape[1], shape[2], shape[3]),
            };
            let t = match catch(|| Tensor::random(sh.clone(), *min, *max)) {
                Ok(t) => t,
                Err(p) => fail!("Tensor::random({:?},{:e},{:e}) panicked: {}", shape, min, max, p),
            };
            ensure!(t.shape == sh, "Tensor::random shape {:?} != requested {:?}", t.shape, sh);
            // nested lengths level by level (every inner vector is inspected; empty levels stop the descent)
            let mut lens: Vec<usize> = Vec::new();
            let mut uniform = true;
            match &t.data {
                Data::Single(v) => lens.push(v.len()),
                Data::Double(v) => {
                    lens.push(v.len());
                    if let Some(f) = v.first() {
                        lens.push(f.len());
                        uniform &= v.iter().all(|r| r.len() == f.len());
                    }
                }
                Data::Triple(v) => {
                    lens.push(v.len());
                    if let Some(f) = v.first() {
                        lens.push(f.len());
                        uniform &= v.iter().all(|r| r.len() == f.len());
                        if let Some(g) = f.first() {
                            lens.push(g.len());
                            uniform &= v.iter().all(|r| r.iter().all(|q| q.len() == g.len()));
                        }
                    }
                }
                Data::Quadruple(v) => {
                    lens.push(v.len());
                    if let Some(f) = v.first() {
                        lens.push(f.len());
                        uniform &= v.iter().all(|r| r.len() == f.len());
                        if let Some(g) = f.first() {
                            lens.push(g.len());
                            uniform &= v.iter().all(|r| r.iter().all(|q| q.len() == g.len()));
                            if let Some(h) = g.first() {
                                lens.push(h.len());
                                uniform &= v.iter().all(|r| r.iter().all(|q| q.iter().all(|z| z.len() == h.len())));
                            }
                        }
                    }
                }
                _ => fail!("unexpected data kind"),
            };
            let want: Vec<usize> = match shape.iter().position(|d| *d == 0) {
                Some(z) => shape[..=z].to_vec(),
                None => shape.clone(),
            };
            ensure!(lens == want && uniform, "Tensor::random nested lengths {:?} != requested {:?}", lens, shape);
            let f = flat(&t);
            ensure!(f.len() == shape.iter().product::<usize>(), "element count");
            for v in f {
                ensure!(v >= *min && v <= *max, "Tensor::random({:?},{:e},{:e}) entry {:e} outside interval", shape, min, max, v);
            }
            Ok(())
        }
        Case::Seed { seed, n } => {
            ev.class("seed-magnitude");
            ev.class(if *seed >= 1 << 32 { "seed>=2^32" } else { "seed<2^32" });
            ev.nontrivial = *seed >= 1 << 32;
            ev.set_sig(&("seed", seed));
            let r = catch(|| {
                let mut g = Generator::create(*seed);
                (0..*n).map(|_| g.generate(0.0, 1.0)).collect::<Vec<f32>>()
            });
            match r {
                Err(p) => fail!("Generator::create({}) then generate(0,1) panicked: {}", seed, p),
                Ok(vs) => {
                    for v in vs {
                        ensure!((0.0..=1.0).contains(&v), "seed {}: generate(0,1) returned {:e}", seed, v);
                    }
                    Ok(())
                }
            }
        }
    }
}

pub struct C18;

impl Prop for C18 {
    fn id(&self) -> &'static str {
        "C18"
    }
    fn tape_len(&self, _t: Tier) -> usize {
        24
    }
    fn cases(&self, t: Tier) -> usize {
        t.pick(400_000, 10_000_000)
    }
    fn rule(&self) -> String {
        "tape-decoded cases of six kinds (one generator object serving two intervals in a row with the second draw at a chosen state - half of them pairs with decimal end points and equal single-precision width; generate at a chosen generator state x interval class; purity of the sequence; shuffle with seeds of all magnitudes and lengths 0..1500 with duplicates (one in five as the second, shorter shuffle on its generator object) (one in 4000: a length just above 2^24); Tensor::random shapes of rank 1-4 (a zero-sized inner dimension in 1/8; in 1/10 after a refused request for an unsupported shape); seeds up to u64::MAX) plus enumeration of generator states (quick: 2^16 lowest + 2^16 highest + a seed-offset progression; thorough: all 2^31-2 states). Non-trivial: state within 2^16 of either end of the state space, or seed >= 2^32, or shuffle length >= 2, or tensor with >= 2 entries. Distinct = (kind, state/seed, interval bits / length / shape).".into()
    }
    fn assumptions(&self) -> Vec<String> {
        vec!["Tensor::random seeds itself from the wall clock: its inputs are not reproducible, the assertion (shape, interval) is seed-independent".into()]
    }
    fn run_case(&self, tape: &[u32], ev: &mut CaseEv) -> CheckResult {
        let c = decode(tape);
        check(&c, ev)
    }
    fn describe(&self, tape: &[u32]) -> Value {
        match decode(tape) {
            Case::Shuffle { seed, values } if values.len() > 64 => json!(format!("Shuffle {{ seed: {}, values: <{} elements> }}", seed, values.len())),
            c => json!(format!("{:?}", c)),
        }
    }
}

/// Tape that decodes to `Case::Range{next, (0,1) or interval idx}` exactly — used to turn an
/// enumerated failure into a replay file.
fn range_tape(next: u64, interval_choice: &[u32]) -> Vec<u32> {
    // state class 3 (raw): next = (raw1*2 + (raw2&1)) % (M-1) + 1
    let x = next - 1; // < M-1 < 2^31
    let raw1 = (x / 2) as u32;
    let raw2 = (x & 1) as u32;
    let mut v = vec![enc_pick(0, KINDS), enc_pick(3, 4), raw1, raw2];
    v.extend_from_slice(interval_choice);
    v
}

const ENUM_INTERVALS: [(f32, f32); 12] = [
    (0.0, 1.0),
    (-1.0, 1.0),
    (0.0, 10.0),
    (-0.1, 0.3),
    (-1000000.0, 1.0),
    (0.1, 0.7),
    (-3.3, -1.1),
    (5.0, 5.0),
    (0.3, 0.3),
    (100.0, 101.0),
    (-101.0, -100.0),
    (1000.0, 1000.5),
];

fn enumerate_states(eng: &Engine, p: &C18, ranges: Vec<(u64, u64)>, label: &str) {
    // generate() over explicit next-state ranges [lo, hi]
    let evals = AtomicU64::new(0);
    let bad = AtomicU64::new(0);
    let first_bad: std::sync::Mutex<Option<(u64, usize, String)>> = std::sync::Mutex::new(None);
    for (lo, hi) in ranges {
        let n = hi - lo + 1;
        let chunks = 64u64;
        (0..chunks).into_par_iter().for_each(|c| {
            let a = lo + n * c / chunks;
            let b = lo + n * (c + 1) / chunks;
            let mut local = 0u64;
            for next in a..b {
                for (k, (min, max)) in ENUM_INTERVALS.iter().enumerate() {
                    local += 1;
                    if let Err(f) = check_range(next, *min, *max) {
                        bad.fetch_add(1, Ordering::Relaxed);
                        let mut fb = first_bad.lock().unwrap();
                        if fb.as_ref().map(|x| (x.1, x.0) > (k, next)).unwrap_or(true) {
                            *fb = Some((next, k, f.msg));
                        }
                    }
                }
            }
            evals.fetch_add(local, Ordering::Relaxed);
        });
    }
    let mut e = eng.evidence.lock().unwrap();
    e.evaluations += evals.load(Ordering::Relaxed);
    e.extra.insert(format!("enumerated_generate_calls_{}", label), json!(evals.load(Ordering::Relaxed)));
    e.extra.insert(format!("enumerated_generate_failures_{}", label), json!(bad.load(Ordering::Relaxed)));
    drop(e);
    let fb = first_bad.lock().unwrap().clone();
    if let Some((next, k, msg)) = fb {
        // No tape class reproduces the fixed interval list, so the replay uses interval class 0/1
        // when possible and otherwise records the message; the regression set pins the rest.
        let choice: Vec<u32> = match k {
            0 => vec![enc_pick(0, 8)],
            1 => vec![enc_pick(1, 8)],
            _ => vec![enc_pick(0, 8)],
        };
        let tape = range_tape(next, &choice);
        let msg = format!("{} [{} states x intervals failing in this enumeration; interval #{} = {:?}]", msg, bad.load(Ordering::Relaxed), k, ENUM_INTERVALS[k]);
        eng.report_violation(p, &tape, &msg, &format!("enum_{}", label));
    }
}

/// Walk the generator through `steps` consecutive states starting at state index `start_pow`
/// (state = A^start_pow), calling shuffle back-to-back on vectors of length `len`.
fn enumerate_shuffle(eng: &Engine, p: &C18, len: usize, total_steps: u64, offset: u64, label: &str) {
    let chunks = 64u64;
    let calls = AtomicU64::new(0);
    let bad = AtomicU64::new(0);
    let first_bad: std::sync::Mutex<Option<(u64, String)>> = std::sync::Mutex::new(None);
    (0..chunks).into_par_iter().for_each(|c| {
        let a = total_steps * c / chunks;
        let b = total_steps * (c + 1) / chunks;
        // state after (offset + a) steps from state 1: A^(offset+a); use it as the seed
        let mut seed = modpow(A, offset + a);
        let base: Vec<usize> = (0..len).collect();
        let mut done = a;
        let mut local = 0u64;
        while done < b {
            let mut v = base.clone();
            let s = seed;
            let r = catch(|| {
                let mut g = Generator::create(s);
                g.shuffle(&mut v);
                v
            });
            local += 1;
            let ok = match &r {
                Ok(out) => {
                    let mut o = out.clone();
                    o.sort();
                    o == base
                }
                Err(_) => false,
            };
            if !ok {
                bad.fetch_add(1, Ordering::Relaxed);
                let mut fb = first_bad.lock().unwrap();
                if fb.is_none() {
                    *fb = Some((s, match r {
                        Err(pn) => format!("shuffle of {} elements with seed {} panicked: {}", len, s, pn),
                        Ok(_) => format!("shuffle of {} elements with seed {} is not a permutation", len, s),
                    }));
                }
            }
            // advance my own copy of the state by `len` steps
            seed = seed * modpow(A, len as u64) % M;
            done += len as u64;
        }
        calls.fetch_add(local, Ordering::Relaxed);
    });
    let mut e = eng.evidence.lock().unwrap();
    e.evaluations += calls.load(Ordering::Relaxed);
    e.extra.insert(format!("enumerated_shuffle_calls_len{}_{}", len, label), json!(calls.load(Ordering::Relaxed)));
    drop(e);
    let fb = first_bad.lock().unwrap().clone();
    if let Some((seed, msg)) = fb {
        // encode as Case::Shuffle via the raw 64-bit seed class (class 1) and the length
        let tape = vec![
            enc_pick(2, KINDS),
            enc_pick(1, 7),
            (seed >> 32) as u32,
            seed as u32,
            if len > 64 { u32::MAX } else { 0 },
            if len > 64 { crate::tape::enc_int(len as i64, 65, 1500) } else { crate::tape::enc_int(len as i64, 0, 64) },
            0,
            0,
        ];
        let msg = format!("{} [{} failing shuffle calls in this enumeration]", msg, bad.load(Ordering::Relaxed));
        eng.report_violation(p, &tape, &msg, &format!("enum_shuffle{}_{}", len, label));
    }
}

pub fn run(eng: &Engine, replay_path: Option<&str>) -> i32 {
    let p = C18;
    if let Some(path) = replay_path {
        return replay(&p, eng, path);
    }
    eng.run_regressions(&p);
    eng.report_known(&p);
    match eng.tier {
        Tier::Quick => {
            let off = (eng.seed % 1009) + 1;
            // seed-offset progression of ~2e6 states (stride 1021, prime)
            let mut ranges = vec![(1u64, 1 << 16), (M - 1 - (1 << 16), M - 1)];
            // progression realised as many short ranges would be slow to set up; use a strided walk instead
            enumerate_states(eng, &p, std::mem::take(&mut ranges), "ends");
            let stride = 1021u64;
            let count = (M - 1 - off) / stride;
            let evals = AtomicU64::new(0);
            let first_bad: std::sync::Mutex<Option<(u64, usize, String)>> = std::sync::Mutex::new(None);
            (0..64u64).into_par_iter().for_each(|c| {
                let a = count * c / 64;
                let b = count * (c + 1) / 64;
                let mut local = 0u64;
                for i in a..b {
                    let next = off + i * stride;
                    for (k, (min, max)) in ENUM_INTERVALS.iter().enumerate() {
                        local += 1;
                        if let Err(f) = check_range(next, *min, *max) {
                            let mut fb = first_bad.lock().unwrap();
                            if fb.is_none() {
                                *fb = Some((next, k, f.msg));
                            }
                        }
                    }
                }
                evals.fetch_add(local, Ordering::Relaxed);
            });
            {
                let mut e = eng.evidence.lock().unwrap();
                e.evaluations += evals.load(Ordering::Relaxed);
                e.extra.insert("enumerated_generate_calls_progression".into(), json!(evals.load(Ordering::Relaxed)));
            }
            let fb = first_bad.lock().unwrap().clone();
            if let Some((next, k, msg)) = fb {
                let tape = range_tape(next, &[enc_pick(if k == 1 { 1 } else { 0 }, 8)]);
                eng.report_violation(&p, &tape, &format!("{} [interval #{} = {:?}]", msg, k, ENUM_INTERVALS[k]), "enum_prog");
            }
            // shuffles that start exactly at the 4096 highest and lowest generator states
            {
                let calls = AtomicU64::new(0);
                let first_bad: std::sync::Mutex<Option<(u64, usize, String)>> = std::sync::Mutex::new(None);
                (0..8192u64).into_par_iter().for_each(|k| {
                    let next = if k < 4096 { M - 1 - k } else { k - 4095 };
                    let seed = prev_state(next);
                    for len in [1usize, 2, 3, 7, 64, 1000] {
                        let base: Vec<usize> = (0..len).collect();
                        let mut v = base.clone();
                        let r = catch(|| {
                            let mut g = Generator::create(seed);
                            g.shuffle(&mut v);
                            v
                        });
                        calls.fetch_add(1, Ordering::Relaxed);
                        let ok = match &r {
                            Ok(o) => {
                                let mut o = o.clone();
                                o.sort();
                                o == base
                            }
                            Err(_) => false,
                        };
                        if !ok {
                            let mut fb = first_bad.lock().unwrap();
                            if fb.is_none() {
                                *fb = Some((seed, len, match r {
                                    Err(pn) => format!("shuffle of {} elements with seed {} (first state {}) panicked: {}", len, seed, next, pn),
                                    Ok(_) => format!("shuffle of {} elements with seed {} is not a permutation", len, seed),
                                }));
                            }
                        }
                    }
                });
                {
                    let mut e = eng.evidence.lock().unwrap();
                    e.evaluations += calls.load(Ordering::Relaxed);
                    e.extra.insert("enumerated_shuffle_calls_at_extreme_states".into(), json!(calls.load(Ordering::Relaxed)));
                }
                let fb = first_bad.lock().unwrap().clone();
                if let Some((seed, len, msg)) = fb {
                    let tape = vec![
                        enc_pick(2, KINDS),
                        enc_pick(1, 7),
                        (seed >> 32) as u32,
                        seed as u32,
                        if len > 64 { u32::MAX } else { 0 },
                        if len > 64 { crate::tape::enc_int(len as i64, 65, 1500) } else { crate::tape::enc_int(len as i64, 0, 64) },
                        0,
                        0,
                    ];
                    eng.report_violation(&p, &tape, &msg, "enum_shuffle_extreme");
                }
            }
            // shuffle through the states at the top of the range: start the walk so that it crosses them
            for len in [1usize, 2, 3, 5, 10, 100] {
                // walk 2^20 states from a seed-dependent offset
                enumerate_shuffle(eng, &p, len, 1 << 20, eng.seed.wrapping_mul(7919) % (M - 1), "walk");
            }
        }
        Tier::Thorough => {
            enumerate_states(eng, &p, vec![(1, M - 1)], "all");
            for len in [1usize, 2, 3, 5, 10, 100, 1000] {
                enumerate_shuffle(eng, &p, len, M - 1, 0, "all");
            }
            eng.evidence.lock().unwrap().exhaustive = true;
            eng.evidence.lock().unwrap().notes.push("exhaustive over the 2^31-2 generator states for generate() with 12 intervals and for the shuffle index with 7 lengths; seeds, lengths, intervals and tensor shapes beyond that are sampled".into());
        }
    }
    eng.explore(&p);
    eng.finish(&p)
}
