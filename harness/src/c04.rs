//! C04 — training is ordered mini-batch gradient-sum descent.
//!
//! Oracle: a replayed reference trainer in the harness. Per-sample gradients and losses come from
//! a second, never-trained network instance holding the current reference weights (library
//! forward + the `verif` backward wrapper); they are summed in order and one step of a separately
//! constructed optimizer (public API, own slot layout, step number = epoch) is applied. C01 owns
//! the gradient; C04 owns grouping, order, summation, step count, step number and loss averaging.

use crate::c03::Kind;
use crate::c10::gen_optimizer;
use crate::engine::*;
use crate::net::*;
use crate::refmodel::{self as rm, ActK, ObjK};
#[allow(unused_imports)]
use crate::net::Acc;
use crate::tape::{payload, Tape};
use crate::tens;
use crate::{ensure, fail};
use neurons::network::Layer;
use neurons::objective;
use neurons::tensor::Tensor;
use serde_json::{json, Value};

#[derive(Debug, Clone)]
struct Case {
    spec: NetSpec,
    kind: Kind,
    obj: ObjK,
    n: usize,
    batch: usize,
    epochs: i32,
    wseed: u32,
    dseed: u32,
    fitted: bool,
    /// number of consecutive learn() calls on the same network (step numbers restart with each call)
    calls: usize,
    /// additivity sub-check on a network with a feedback block (plain SGD)
    additive: bool,
    /// sub-check: the same training with and without validation data (dropout layers present)
    val_invariance: bool,
    /// `set_optimizer` is never called: the network (and every feedback block) trains with the documented
    /// standard optimizer, plain SGD with learning rate 0.1
    implicit_default: bool,
}

fn decode(tape: &[u32]) -> Case {
    let mut t = Tape::new(tape);
    // one network in four may contain feedback blocks (no internal skips, mean coupling): the replay then also
    // models the block's own update - every unrolled copy takes its step with its own optimizer state, then the
    // copies are re-coupled by their mean
    let with_blocks = t.chance(1, 4);
    let o = GenOpts { max_layers: 3, max_hw: 4, max_c: 2, max_dense: 5, allow_feedback: with_blocks, acts: &[ActK::Linear, ActK::Tanh, ActK::Sigmoid, ActK::Leaky], ..GenOpts::default() };
    let mut spec = gen_net(&mut t, &o);
    let obj = [ObjK::MSE, ObjK::AE, ObjK::MAE, ObjK::RMSE, ObjK::BCE, ObjK::KL, ObjK::CE][t.pick(7)];
    if matches!(obj, ObjK::BCE | ObjK::KL | ObjK::CE) {
        spec.layers.push(LayerSpec::Dense { out: t.usize(1, 4), act: ActK::Sigmoid, bias: t.bool(), dropout: None });
    }
    let kind = gen_optimizer(&mut t);
    let (n, batch) = if t.chance(1, 8) {
        // groups larger than the library's internal parallel chunk size (64)
        let n = t.usize(65, 140);
        (n, t.usize(60, n + 3))
    } else {
        let n = t.usize(1, 12);
        (n, t.usize(1, n + 3))
    };
    // "fitted" data: the targets of the first group equal the initial predictions bit for bit
    // (loss exactly 0, zero gradient): one optimizer step per group must still happen
    let fitted = t.chance(1, 6);
    let calls = if t.chance(1, 4) { 2 } else { 1 };
    let additive = t.chance(1, 8);
    let mut case = Case { spec, kind, obj, n, batch, epochs: t.usize(1, 4) as i32, wseed: t.raw(), dseed: t.raw(), fitted, calls, additive, val_invariance: false, implicit_default: false };
    if !additive && t.chance(1, 8) {
        // a network with dropout on (de)convolution and dense layers, ending in a dense layer
        let oo = GenOpts { max_layers: 2, max_hw: 4, max_c: 2, max_dense: 5, allow_feedback: true, allow_dropout: true, end_dense: true, acts: &[ActK::Linear, ActK::Tanh, ActK::Sigmoid, ActK::Leaky], ..GenOpts::default() };
        let mut sp = gen_net(&mut t, &oo);
        let mut any = false;
        for l in sp.layers.iter_mut() {
            if let LayerSpec::Conv { dropout, .. } | LayerSpec::Deconv { dropout, .. } | LayerSpec::Dense { dropout, .. } = l {
                if dropout.is_none() && !any {
                    *dropout = Some(t.usize(200, 700) as u32);
                }
                any = true;
            }
        }
        case.spec = sp;
        case.obj = ObjK::MSE;
        case.val_invariance = true;
        case.epochs = t.usize(2, 4) as i32;
        case.n = t.usize(2, 6);
        case.batch = t.usize(1, case.n);
        case.calls = 1;
        case.fitted = false;
    }
    if !additive && !case.val_invariance && t.chance(1, 10) {
        case.implicit_default = true;
        case.kind = Kind::SGD { lr: 0.1, decay: None };
    }
    if additive {
        // dense -> feedback block with mixed bias settings -> dense, plain SGD, two samples in one group
        let o = GenOpts { allow_feedback: false, ..o };
        let w = t.usize(1, 4);
        let block = LayerSpec::Feedback {
            layers: vec![
                LayerSpec::Dense { out: t.usize(1, 4), act: gen_act(&mut t, &o), bias: t.bool(), dropout: None },
                LayerSpec::Dense { out: w, act: gen_act(&mut t, &o), bias: t.bool(), dropout: None },
            ],
            loops: t.usize(1, 3),
            inskips: false,
            outskips: false,
            acc: Acc::Mean,
        };
        case.spec = NetSpec {
            input: vec![t.usize(1, 4)],
            layers: vec![
                LayerSpec::Dense { out: w, act: gen_act(&mut t, &o), bias: t.bool(), dropout: None },
                block,
                LayerSpec::Dense { out: t.usize(1, 3), act: gen_act(&mut t, &o), bias: t.bool(), dropout: None },
            ],
        };
        case.obj = ObjK::MSE;
        case.kind = Kind::SGD { lr: [0.05f32, 0.1, 0.01][t.pick(3)], decay: None };
        case.n = t.usize(2, 4);
        case.batch = case.n;
    }
    case
}

/// The optimizer's slot layout, as `Network::set_optimizer` builds it (layers in reverse order).
fn slot_vectors(net: &neurons::network::Network) -> Vec<Vec<Vec<Tensor>>> {
    let mut v = Vec::new();
    for l in net.layers.iter().rev() {
        if matches!(l, Layer::Feedback(_) | Layer::Maxpool(_)) {
            v.push(vec![vec![Tensor::single(vec![])]]);
            continue;
        }
        let ps = neurons::verif::layer_params(l);
        match l {
            Layer::Dense(_) => {
                let w = tens::build(&tensor_dims(&ps[0]), &vec![0.0; tens::flat(&ps[0]).len()]);
                let b = if ps.len() > 1 { Tensor::single(vec![0.0; tens::flat(&ps[1]).len()]) } else { Tensor::single(vec![]) };
                v.push(vec![vec![w, b]]);
            }
            Layer::Convolution(_) | Layer::Deconvolution(_) => {
                v.push(ps.iter().map(|k| vec![tens::build(&tensor_dims(k), &vec![0.0; tens::flat(k).len()])]).collect());
            }
            _ => v.push(vec![vec![Tensor::single(vec![])]]),
        }
    }
    v
}

/// Slot layout of a feedback block's own optimizer (unrolled layers in reverse order), as `copy_optimizer` builds it.
fn block_slot_vectors(fb: &neurons::feedback::Feedback) -> Vec<Vec<Vec<Tensor>>> {
    let mut v = Vec::new();
    for l in fb.layers.iter().rev() {
        if matches!(l, Layer::Feedback(_) | Layer::Maxpool(_)) {
            v.push(vec![vec![Tensor::single(vec![])]]);
            continue;
        }
        let ps = neurons::verif::layer_params(l);
        match l {
            Layer::Dense(_) => {
                let w = tens::build(&tensor_dims(&ps[0]), &vec![0.0; tens::flat(&ps[0]).len()]);
                let b = if ps.len() > 1 { Tensor::single(vec![0.0; tens::flat(&ps[1]).len()]) } else { Tensor::single(vec![]) };
                v.push(vec![vec![w, b]]);
            }
            Layer::Convolution(_) | Layer::Deconvolution(_) => {
                v.push(ps.iter().map(|k| vec![tens::build(&tensor_dims(k), &vec![0.0; tens::flat(k).len()])]).collect());
            }
            _ => v.push(vec![vec![Tensor::single(vec![])]]),
        }
    }
    v
}

/// Plain SGD is linear in the gradient sum: one step on the group {x1..xn} moves every parameter by
/// the sum of the moves of the n single-sample steps from the same start (also through a feedback
/// block, whose mean re-coupling is linear too).
fn check_additive(case: &Case, ev: &mut CaseEv) -> CheckResult {
    let spec = &case.spec;
    ev.class("SGD additivity through a feedback block");
    let n_in = count(&spec.input);
    let out_dims = final_dims(spec);
    let xs: Vec<Tensor> = (0..case.n).map(|i| tens::build(&spec.input, &payload(case.dseed.wrapping_add(i as u32 * 101), 1, n_in, 1.0))).collect();
    let ys: Vec<Tensor> = (0..case.n).map(|i| tens::build(&out_dims, &payload(case.dseed.wrapping_add(9000 + i as u32 * 37), 1, count(&out_dims), 1.0))).collect();
    let net0 = build(spec).map_err(|p| Fail::new(format!("valid network rejected: {} ({:?})", p, spec)))?;
    let ps0 = seeded_params(&net0, spec, case.wseed, 1, 1.0);
    let train = |idx: &[usize]| -> Result<Vec<Vec<f32>>, String> {
        let mut net = build(spec)?;
        apply_params(&mut net, &ps0);
        net.set_objective(lib_obj(ObjK::MSE), None);
        let kind = case.kind.clone();
        catch(std::panic::AssertUnwindSafe(|| net.set_optimizer(kind.create())))?;
        let xr: Vec<&Tensor> = idx.iter().map(|i| &xs[*i]).collect();
        let yr: Vec<&Tensor> = idx.iter().map(|i| &ys[*i]).collect();
        catch(std::panic::AssertUnwindSafe(|| net.learn(&xr, &yr, None, idx.len(), 1, None)))?;
        Ok(collect_params(&net).iter().map(|(_, t)| tens::flat(t)).collect())
    };
    let all: Vec<usize> = (0..case.n).collect();
    let together = match train(&all) {
        Ok(v) => v,
        Err(p) => {
            if p.contains("Loss is NaN") {
                ev.discard = Some("training diverged to NaN");
                return Ok(());
            }
            fail!("learn panicked: {} ({:?})", p, spec);
        }
    };
    let singles: Vec<Vec<Vec<f32>>> = (0..case.n).map(|i| train(&[i])).collect::<Result<_, _>>().map_err(Fail::new)?;
    let w0: Vec<Vec<f32>> = ps0.iter().map(|(_, t)| tens::flat(t)).collect();
    let mut worst = 0.0f64;
    for (k, ((r, _), w)) in ps0.iter().zip(w0.iter()).enumerate() {
        for e in 0..w.len() {
            let want: f64 = w[e] as f64 + singles.iter().map(|s| s[k][e] as f64 - w[e] as f64).sum::<f64>();
            let got = together[k][e] as f64;
            let scale = singles.iter().map(|s| (s[k][e] as f64 - w[e] as f64).abs()).sum::<f64>() + (w[e] as f64).abs();
            let tol = 2e-5 * scale + 1e-6;
            worst = worst.max((got - want).abs() / tol);
            ensure!(
                (got - want).abs() <= tol,
                "one SGD step on a group of {} samples moved parameter {:?}[{}] to {:e}; the sum of the {} single-sample steps from the same weights gives {:e} (every sample must contribute its gradient exactly once); spec {:?}",
                case.n, r, e, got, case.n, want, spec
            );
        }
    }
    ev.ratio("sgd_additivity", worst);
    ev.nontrivial = true;
    ev.set_sig(&(spec, case.n, "additive"));
    Ok(())
}

/// Validation data is only looked at: training with it must give the same weights and training
/// losses as training without it (dropout masks included).
fn check_val_invariance(case: &Case, ev: &mut CaseEv) -> CheckResult {
    let spec = &case.spec;
    ev.class("training with vs without validation data (dropout layers)");
    let n_in = count(&spec.input);
    let out_dims = final_dims(spec);
    let xs: Vec<Tensor> = (0..case.n).map(|i| tens::build(&spec.input, &payload(case.dseed.wrapping_add(i as u32 * 101), 1, n_in, 1.0))).collect();
    let ys: Vec<Tensor> = (0..case.n).map(|i| tens::build(&out_dims, &payload(case.dseed.wrapping_add(9000 + i as u32 * 37), 1, count(&out_dims), 1.0))).collect();
    let (xr, yr): (Vec<&Tensor>, Vec<&Tensor>) = (xs.iter().collect(), ys.iter().collect());
    let net0 = build(spec).map_err(|p| Fail::new(format!("valid network rejected: {} ({:?})", p, spec)))?;
    let ps0 = seeded_params(&net0, spec, case.wseed, 1, 1.0);
    let run = |with_val: bool| -> Result<(Vec<f32>, Vec<Vec<f32>>), String> {
        let mut net = build(spec)?;
        apply_params(&mut net, &ps0);
        net.set_objective(lib_obj(ObjK::MSE), None);
        let kind = case.kind.clone();
        catch(std::panic::AssertUnwindSafe(|| net.set_optimizer(kind.create())))?;
        let (tl, _, _) = catch(std::panic::AssertUnwindSafe(|| if with_val { net.learn(&xr, &yr, Some((&xr, &yr, 1000)), case.batch, case.epochs, None) } else { net.learn(&xr, &yr, None, case.batch, case.epochs, None) }))?;
        Ok((tl, collect_params(&net).iter().map(|(_, t)| tens::flat(t)).collect()))
    };
    let a = match run(false) {
        Ok(v) => v,
        Err(p) => {
            ev.discard = Some(if p.contains("Loss is NaN") { "training diverged to NaN" } else { "training panicked (block the library cannot train)" });
            return Ok(());
        }
    };
    let b = match run(true) {
        Ok(v) => v,
        Err(p) => {
            if p.contains("Loss is NaN") {
                ev.discard = Some("training diverged to NaN");
                return Ok(());
            }
            fail!("learn with validation data panicked although the same run without it did not: {} ({:?})", p, spec);
        }
    };
    if a.1.iter().flatten().any(|v| !v.is_finite()) {
        ev.discard = Some("non-finite weights");
        return Ok(());
    }
    ensure!(a.0.len() == b.0.len() && a.0.iter().zip(b.0.iter()).all(|(p, q)| p.to_bits() == q.to_bits()), "training losses with validation data {:?} differ from those without {:?} ({} epochs, batch {}); spec {:?}", b.0, a.0, case.epochs, case.batch, spec);
    for (k, (wa, wb)) in a.1.iter().zip(b.1.iter()).enumerate() {
        if let Some(i) = tens::first_bit_diff(wa, wb) {
            fail!("passing validation data to learn() changed the trained weights (parameter tensor #{} element {}: {:e} vs {:e}; {} epochs, batch {}): validation must not influence the per-sample gradients; spec {:?}", k, i, wb[i], wa[i], case.epochs, case.batch, spec);
        }
    }
    ev.nontrivial = case.epochs >= 2;
    ev.set_sig(&(spec, case.n, case.batch, case.epochs, "val-invariance"));
    Ok(())
}

fn check(case: &Case, ev: &mut CaseEv) -> CheckResult {
    if case.additive {
        return check_additive(case, ev);
    }
    if case.val_invariance {
        return check_val_invariance(case, ev);
    }
    let spec = &case.spec;
    ev.class(format!("optimizer:{}", case.kind.name()));
    ev.class(format!("objective:{:?}", case.obj));
    let groups = (case.n + case.batch - 1) / case.batch;
    ev.class(if case.batch == 1 { "B=1" } else if case.batch > case.n { "B>N" } else if case.n % case.batch != 0 { "B does not divide N" } else { "B divides N" });
    let mut net = build(spec).map_err(|p| Fail::new(format!("valid network rejected: {} ({:?})", p, spec)))?;
    let ps0 = seeded_params(&net, spec, case.wseed, 1, 1.0);
    apply_params(&mut net, &ps0);
    net.set_objective(lib_obj(case.obj), None);
    let kind = case.kind.clone();
    if case.implicit_default {
        ev.class("standard optimizer (set_optimizer never called)");
    } else {
        catch(std::panic::AssertUnwindSafe(|| net.set_optimizer(kind.create()))).map_err(Fail::new)?;
    }

    let n_in = count(&spec.input);
    let out_dims = final_dims(spec);
    let prob = matches!(case.obj, ObjK::BCE | ObjK::KL | ObjK::CE);
    let xs: Vec<Tensor> = (0..case.n).map(|i| tens::build(&spec.input, &payload(case.dseed.wrapping_add(i as u32 * 101), 1, n_in, 1.0))).collect();
    let ys: Vec<Tensor> = (0..case.n)
        .map(|i| {
            let v = payload(case.dseed.wrapping_add(9000 + i as u32 * 37), 1, count(&out_dims), 1.0);
            let v: Vec<f32> = if prob { v.iter().map(|u| 0.05 + 0.45 * (u + 1.0)).collect() } else { v };
            tens::build(&out_dims, &v)
        })
        .collect();
    let ys: Vec<Tensor> = if case.fitted {
        ev.class("first group fitted exactly (zero loss)");
        ys.iter().enumerate().map(|(i, y)| if i < case.batch { net.predict(&xs[i]) } else { y.clone() }).collect()
    } else {
        ys
    };
    let (xr, yr): (Vec<&Tensor>, Vec<&Tensor>) = (xs.iter().collect(), ys.iter().collect());

    // --- library
    if case.calls > 1 {
        ev.class("two learn() calls");
    }
    let res = catch(std::panic::AssertUnwindSafe(|| {
        let mut all = (Vec::new(), Vec::new(), Vec::new());
        for _ in 0..case.calls {
            let (a, b, c) = net.learn(&xr, &yr, None, case.batch, case.epochs, None);
            all.0.extend(a);
            all.1.extend(b);
            all.2.extend(c);
        }
        all
    }));
    let (tl, vl, va) = match res {
        Ok(r) => r,
        Err(p) => {
            if p.contains("Loss is NaN") {
                ev.discard = Some("training diverged to NaN");
                return Ok(());
            }
            fail!("learn panicked: {} ({:?}, N {}, B {}, E {})", p, spec, case.n, case.batch, case.epochs);
        }
    };
    ensure!(tl.len() == case.epochs as usize * case.calls && vl.is_empty() && va.is_empty(), "learn returned {} training losses for {} epochs ({} / {} validation entries without validation data)", tl.len(), case.epochs, vl.len(), va.len());
    let lib_final = collect_params(&net);

    // --- replayed reference trainer
    let mut worker = build(spec).map_err(Fail::new)?; // never trained; only holds the reference weights
    let objf = objective::Function::create(lib_obj(case.obj), None);
    let mut ref_opt = case.kind.create();
    ref_opt.validate(slot_vectors(&worker));
    let mut block_opts: std::collections::BTreeMap<usize, neurons::optimizer::Optimizer> = std::collections::BTreeMap::new();
    for (i, l) in worker.layers.iter().enumerate() {
        if let Layer::Feedback(fb) = l {
            let mut o = case.kind.create();
            o.validate(block_slot_vectors(fb));
            block_opts.insert(i, o);
            ev.class("replay through a feedback block (per-copy optimizer state, mean re-coupling)");
        }
    }
    let mut ref_w: Vec<(PRef, Tensor)> = ps0.clone();
    let nl = spec.layers.len();
    let mut ref_losses: Vec<f32> = Vec::new();
    for _call in 0..case.calls {
    for epoch in 1..=case.epochs {
        let mut loss_epoch = 0.0f32;
        for g in 0..groups {
            let lo = g * case.batch;
            let hi = ((g + 1) * case.batch).min(case.n);
            apply_params(&mut worker, &ref_w);
            let mut sum: Option<Vec<(PRef, Tensor)>> = None;
            let mut losses: Vec<f32> = Vec::new();
            for i in lo..hi {
                let (l, gr) = lib_gradients(&worker, &objf, &xs[i], &ys[i]).map_err(|p| Fail::new(format!("harness: per-sample gradient panicked: {p}")))?;
                losses.push(l);
                match &mut sum {
                    None => sum = Some(gr),
                    Some(s) => {
                        for ((_, a), (_, b)) in s.iter_mut().zip(gr.iter()) {
                            a.add_inplace(b);
                        }
                    }
                }
            }
            loss_epoch += losses.iter().sum::<f32>() / losses.len() as f32;
            let mut sum = sum.unwrap();
            for ((r, w), (_, gsum)) in ref_w.iter_mut().zip(sum.iter_mut()) {
                match (&spec.layers[r.layer], r.inner) {
                    (LayerSpec::Feedback { layers: inner, loops, .. }, Some(j)) => {
                        // unrolled copy j of the block: its own slot in the block's own optimizer
                        let total = inner.len() * loops;
                        let (filter, bias) = match &inner[j % inner.len()] {
                            LayerSpec::Dense { .. } => (0, r.tensor == 1),
                            _ => (r.tensor, false),
                        };
                        block_opts.get_mut(&r.layer).unwrap().update(total - 1 - j, filter, bias, epoch, w, gsum);
                    }
                    (l, _) => {
                        let rev = nl - 1 - r.layer;
                        let (filter, bias) = match l {
                            LayerSpec::Dense { .. } => (0, r.tensor == 1),
                            _ => (r.tensor, false),
                        };
                        ref_opt.update(rev, filter, bias, epoch, w, gsum);
                    }
                }
            }
            // re-couple the copies of every block layer: mean over the repetitions (summed in order, then divided)
            for (li, l) in spec.layers.iter().enumerate() {
                if let LayerSpec::Feedback { layers: inner, loops, .. } = l {
                    let len = inner.len();
                    let keys: Vec<(usize, usize)> = ref_w.iter().filter(|(r, _)| r.layer == li && r.inner.map(|j| j < len).unwrap_or(false)).map(|(r, _)| (r.inner.unwrap(), r.tensor)).collect();
                    for (pos, tensor) in keys {
                        let copies: Vec<usize> = (0..*loops).map(|c| ref_w.iter().position(|(r, _)| r.layer == li && r.inner == Some(pos + c * len) && r.tensor == tensor).expect("copy")).collect();
                        let dims = tensor_dims(&ref_w[copies[0]].1);
                        let mut acc = tens::flat(&ref_w[copies[0]].1);
                        for c in &copies[1..] {
                            for (a, b) in acc.iter_mut().zip(tens::flat(&ref_w[*c].1).iter()) {
                                *a += *b;
                            }
                        }
                        let cnt = *loops as f32;
                        for a in acc.iter_mut() {
                            *a /= cnt;
                        }
                        let mean = tens::build(&dims, &acc);
                        for c in &copies {
                            ref_w[*c].1 = mean.clone();
                        }
                    }
                }
            }
        }
        ref_losses.push(loss_epoch / groups as f32);
    }
    }
    if ref_w.iter().any(|(_, t)| tens::flat(t).iter().any(|v| !v.is_finite())) || ref_losses.iter().any(|l| !l.is_finite()) {
        ev.discard = Some("non-finite reference result");
        return Ok(());
    }
    // --- compare
    let mut worst = 0.0f64;
    for (e, (a, b)) in tl.iter().zip(ref_losses.iter()).enumerate() {
        let tol = 1e-4 * (*b as f64).abs() + 1e-6;
        let err = (*a as f64 - *b as f64).abs();
        worst = worst.max(err / tol);
        ensure!(
            err <= tol,
            "training loss of epoch {} is {:e}; mean over the {} groups of the mean per-sample loss (weights before each step) is {:e} (N {}, B {}, E {}, {}, {:?})",
            e + 1, a, groups, b, case.n, case.batch, case.epochs, case.kind.name(), case.obj
        );
    }
    for ((r, a), (_, b)) in lib_final.iter().zip(ref_w.iter()) {
        let (fa, fb) = (tens::flat(a), tens::flat(b));
        for i in 0..fa.len() {
            let tol = 1e-4 * (fb[i] as f64).abs() + 1e-6;
            let err = (fa[i] as f64 - fb[i] as f64).abs();
            worst = worst.max(err / tol);
            ensure!(
                err <= tol,
                "after learn (N {}, B {}, E {}, {}) parameter {:?}[{}] is {:e}; ordered mini-batch gradient-sum descent (one step per group, step number = epoch) gives {:e}; spec {:?}",
                case.n, case.batch, case.epochs, case.kind.name(), r, i, fa[i], fb[i], spec
            );
        }
    }
    ev.ratio("learn_vs_replay", worst);
    ev.nontrivial = groups >= 2 && (case.n % case.batch != 0 || case.epochs >= 2) && case.batch >= 2;
    ev.set_sig(&(spec, case.n, case.batch, case.epochs, case.kind.name(), case.obj));
    let _ = rm::OBJS;
    Ok(())
}

pub struct C04;

impl Prop for C04 {
    fn id(&self) -> &'static str {
        "C04"
    }
    fn tape_len(&self, _t: Tier) -> usize {
        96
    }
    fn cases(&self, t: Tier) -> usize {
        t.pick(40_000, 2_000_000)
    }
    fn rayon_threads(&self) -> Option<usize> {
        Some(3)
    }
    fn rule(&self) -> String {
        "tape-decoded training run: 1-3-layer network (dense, convolution, deconvolution, max-pool mixes, no dropout; one network in four may contain feedback blocks without internal skips - the replay then gives every unrolled copy its own slot in the block's own optimizer and re-couples the copies by their mean after each step), one of five optimizers with option variants (one run in ten never calls set_optimizer and must train with the documented standard optimizer, plain SGD with learning rate 0.1, also inside feedback blocks), one of seven objectives (sigmoid head for the probability objectives), N = 1..12 distinct samples (1/8 of the cases: N = 65..140 with B >= 60, i.e. groups beyond the internal 64-sample chunk), B = 1..N+3 (B = 1, B not dividing N, B > N all occur), in 1/6 of the cases the first group's targets equal the initial predictions bit for bit (zero loss and gradient), E = 1..4 epochs, known start weights; one run in four calls learn() twice on the same network (step numbers restart at 1 in every call); one case in eight compares training with and without validation data on networks with dropout layers (weights and training losses must be bit-identical); one case in eight is the additivity sub-check: plain SGD, a dense -> feedback block (mixed bias settings) -> dense network, one group of 2-4 samples must move every parameter by the sum of the single-sample steps. Oracle: replayed reference trainer (groups of B in order, per-sample gradients at the pre-step weights from a never-trained second instance, summed in order, one step of a separately constructed optimizer with step number = epoch, loss = mean over groups of mean per-sample loss); final weights and the loss vector must agree within 1e-4 relative / 1e-6 absolute (bit-identical today). Non-trivial: >= 2 groups, B >= 2 and (B does not divide N or E >= 2). Distinct = (architecture, N, B, E, optimizer, objective).".into()
    }
    fn run_case(&self, tape: &[u32], ev: &mut CaseEv) -> CheckResult {
        check(&decode(tape), ev)
    }
    fn describe(&self, tape: &[u32]) -> Value {
        let c = decode(tape);
        json!({"spec": format!("{:?}", c.spec), "optimizer": format!("{:?}", c.kind), "objective": format!("{:?}", c.obj), "N": c.n, "B": c.batch, "E": c.epochs})
    }
}

pub fn run(eng: &Engine, replay_path: Option<&str>) -> i32 {
    let p = C04;
    if let Some(path) = replay_path {
        return replay(&p, eng, path);
    }
    standard_run(&p, eng)
}
