//! Float comparison policies.

/// Map f32 to a monotone integer line so that ulp distance is a subtraction.
pub fn ord32(x: f32) -> i64 {
    let b = x.to_bits() as i32;
    (if b < 0 { i32::MIN.wrapping_sub(b) } else { b }) as i64
}

/// Distance in units in the last place (0 for equal values, +0/-0 are 0 apart).
pub fn ulps32(a: f32, b: f32) -> u64 {
    if a.is_nan() || b.is_nan() {
        return u64::MAX;
    }
    (ord32(a) - ord32(b)).unsigned_abs()
}

pub fn bits_eq(a: f32, b: f32) -> bool {
    a.to_bits() == b.to_bits()
}

/// ulp of an f32 value, as f64.
pub fn ulp_of(x: f32) -> f64 {
    let a = x.abs();
    if !a.is_finite() {
        return f64::INFINITY;
    }
    let next = f32::from_bits(a.to_bits() + 1);
    if next.is_finite() {
        next as f64 - a as f64
    } else {
        a as f64 - f32::from_bits(a.to_bits() - 1) as f64
    }
}

pub const EPS32: f64 = 5.960464477539063e-8; // 2^-24, unit roundoff

/// error/tolerance ratio for the mixed policy |a-b| <= rel*|b| + abs
pub fn mixed_ratio(lib: f64, reference: f64, rel: f64, abs: f64) -> f64 {
    if lib.is_nan() != reference.is_nan() {
        return f64::INFINITY;
    }
    if lib.is_nan() {
        return 0.0;
    }
    if lib == reference {
        return 0.0;
    }
    let tol = rel * reference.abs() + abs;
    (lib - reference).abs() / tol
}
