//! C01 — back-propagated gradients are the true derivatives of the objective.

use crate::engine::*;
use crate::net::*;
use crate::refmodel::{self as rm, ActK, ObjK};
use crate::tape::{payload, Mix, Tape};
use crate::tens;
use crate::{ensure, fail};
use neurons::network::{Layer, Network};
use neurons::objective;
use neurons::optimizer;
use neurons::tensor::Tensor;
use serde_json::{json, Value};

#[derive(Debug, Clone)]
pub struct Case {
    pub spec: NetSpec,
    pub obj: ObjK,
    pub softmax_ce: bool,
    pub wseed: u32,
    pub wmode: u32,
    pub xseed: u32,
    pub tseed: u32,
    pub learn_step: bool,
    pub isolation: bool,
    /// additive skip connections (used by C16; empty for C01)
    pub connects: Vec<(usize, usize)>,
    /// run a short learn() on the same network object first and check the gradients at the trained weights
    pub after_learn: bool,
    /// with `after_learn`: this many of the trailing `connects` are only added after that training (history:
    /// build, train, connect, differentiate)
    pub late_connects: usize,
    /// a frozen output gradient of magnitude ~1e-7 is back-propagated (scale-free check of the backward pass)
    pub near_optimum: bool,
    /// scale of the weights (1.5; 5 in part of the single-layer cases: saturated tanh / sigmoid units)
    pub wscale: f32,
}

/// Component-wise backward error bounds of one isolated dense / convolution / deconvolution layer for the
/// functional <g0, act(Op(x))>. A backward pass that evaluates  g0 * act'(z)  in single precision and then applies
/// the transposed linear operator has, per component, an error of at most
///   sum_o |g0_o| (|act'(z_o)| R_o + A) |dz_o/d.|,
/// R_o = (32 + terms) eps + C dz_o: rounding of the products and sums plus the effect of the rounding error dz_o of
/// the pre-activation itself (|act''| <= C |act'|: C = 2 for tanh, 1 for the logistic function, 0 for the
/// piecewise-linear ones, which are kept away from their kink); A = 2e-7 is the absolute accuracy of the
/// logistic derivative s(1 - s) for saturated s (C07 grants the same). Computed with the f64 reference
/// operators on |W| and unit vectors (the operators are linear, so one evaluation per component is exact).
/// Returns (bounds of the input gradient, bounds per parameter tensor).
fn isolation_bounds(l: &LayerSpec, params: &[Vec<f64>], x: &[f64], xdims: &[usize], g0: &[f64]) -> Option<(Vec<f64>, Vec<Vec<f64>>)> {
    let eps = crate::fcmp::EPS32;
    let (act, bias) = match l {
        LayerSpec::Dense { act, bias, .. } => (*act, *bias),
        LayerSpec::Conv { act, .. } | LayerSpec::Deconv { act, .. } => (*act, false),
        _ => return None,
    };
    if act == ActK::Softmax {
        return None;
    }
    let r = ref_layer(l, params, x, xdims);
    let n_out = r.pre.len();
    let n_in = x.len();
    let (curv, a_abs) = match act {
        ActK::Tanh => (2.0, 0.0),
        ActK::Sigmoid => (1.0, 2e-7),
        _ => (0.0, 0.0),
    };
    let dact = |z: f64| -> f64 {
        match act {
            ActK::Tanh => 1.0 - z.tanh() * z.tanh(),
            ActK::Sigmoid => {
                let s = 1.0 / (1.0 + (-z).exp());
                s * (1.0 - s)
            }
            ActK::ReLU => if z > 0.0 { 1.0 } else { 0.0 },
            ActK::Leaky => if z > 0.0 { 1.0 } else { 0.01 },
            _ => 1.0,
        }
    };
    let terms = (n_in + n_out + 2) as f64;
    let v: Vec<f64> = (0..n_out)
        .map(|o| {
            let dz = 4.0 * (n_in as f64 + 2.0) * eps * r.mag[o];
            let rel = (32.0 + terms) * eps + curv * dz;
            g0[o].abs() * (dact(r.pre[o]).abs() * rel + a_abs)
        })
        .collect();
    let dotv = |y: &[f64]| -> f64 { y.iter().zip(v.iter()).map(|(a, b)| a.abs() * b).sum() };
    match l {
        LayerSpec::Dense { out, .. } => {
            let w = &params[0];
            let ib: Vec<f64> = (0..n_in).map(|i| (0..*out).map(|o| v[o] * w[o * n_in + i].abs()).sum()).collect();
            let mut pb = vec![(0..*out * n_in).map(|k| v[k / n_in] * x[k % n_in].abs()).collect::<Vec<f64>>()];
            if bias {
                pb.push(v.clone());
            }
            Some((ib, pb))
        }
        LayerSpec::Conv { cfg, .. } | LayerSpec::Deconv { cfg, .. } => {
            let d = spatial_dims(xdims);
            let is_conv = matches!(l, LayerSpec::Conv { .. });
            let op = |xx: &[f64], kk: &[f64]| -> Vec<f64> { if is_conv { rm::conv(xx, d, kk, cfg).0 } else { rm::deconv(xx, d, kk, cfg).0 } };
            let kabs: Vec<f64> = params.iter().flat_map(|p| p.iter().map(|v| v.abs())).collect();
            let xabs: Vec<f64> = x.iter().map(|v| v.abs()).collect();
            let mut ib = Vec::with_capacity(n_in);
            let mut e = vec![0.0; n_in];
            for i in 0..n_in {
                e[i] = 1.0;
                ib.push(dotv(&op(&e, &kabs)));
                e[i] = 0.0;
            }
            let per = params[0].len();
            let mut pb = Vec::new();
            let mut k = vec![0.0; kabs.len()];
            for (ti, p) in params.iter().enumerate() {
                let mut b = Vec::with_capacity(p.len());
                for j in 0..p.len() {
                    k[ti * per + j] = 1.0;
                    b.push(dotv(&op(&xabs, &k)));
                    k[ti * per + j] = 0.0;
                }
                pb.push(b);
            }
            Some((ib, pb))
        }
        _ => None,
    }
}

pub fn conv_nonunit(l: &LayerSpec) -> bool {
    match l {
        LayerSpec::Conv { cfg, .. } => cfg.stride != (1, 1) || cfg.dilation != (1, 1) || cfg.padding.0 >= cfg.kernel.0 || cfg.padding.1 >= cfg.kernel.1,
        LayerSpec::Feedback { layers, .. } => layers.iter().any(conv_nonunit),
        _ => false,
    }
}

fn decode(tape: &[u32], tier: Tier) -> Case {
    let mut t = Tape::new(tape);
    let big = tier == Tier::Thorough;
    let o = GenOpts { max_layers: if big { 6 } else { 4 }, max_hw: if big { 9 } else { 7 }, allow_feedback: true, ..GenOpts::default() };
    let isolation = t.chance(1, 4);
    let mut spec = if isolation {
        // a single layer (any kind incl. a feedback block) for the public per-layer backward
        if t.chance(1, 150) {
            // a large map (13-24 pixels a side, kernels up to 5) through one convolution / deconvolution / max-pool
            let oo = GenOpts { max_hw: 24, max_kernel: 5, allow_feedback: false, ..GenOpts::default() };
            let input = vec![t.usize(1, 2), t.usize(13, 24), t.usize(13, 24)];
            let l = gen_layer(&mut t, &input, true, &oo, false);
            NetSpec { input, layers: vec![l] }
        } else {
            let input = gen_input(&mut t, &o);
            let l = gen_layer(&mut t, &input, true, &o, true);
            NetSpec { input, layers: vec![l] }
        }
    } else {
        gen_net(&mut t, &o)
    };
    // one network in ten contains wide dense layers (both sides above 32, not multiples of 32)
    if !isolation && t.chance(1, 10) {
        let w1 = t.usize(33, 70);
        let w2 = t.usize(33, 70);
        spec = NetSpec {
            input: vec![t.usize(2, 6)],
            layers: vec![
                LayerSpec::Dense { out: w1, act: gen_act(&mut t, &o), bias: t.bool(), dropout: None },
                LayerSpec::Dense { out: w2, act: gen_act(&mut t, &o), bias: t.bool(), dropout: None },
                LayerSpec::Dense { out: t.usize(1, 4), act: gen_act(&mut t, &o), bias: t.bool(), dropout: None },
            ],
        };
    }
    let softmax_ce = !isolation && t.chance(1, 6);
    let mut obj = rm::OBJS[t.pick(7)];
    if isolation {
        obj = ObjK::MSE; // only used to draw a frozen output gradient g0
    }
    if softmax_ce {
        obj = ObjK::CE;
        let n = t.usize(2, 6);
        spec.layers.push(LayerSpec::Dense { out: n, act: ActK::Softmax, bias: t.bool(), dropout: None });
    } else if matches!(obj, ObjK::CE | ObjK::BCE | ObjK::KL) && !isolation {
        // probability objectives need outputs inside (0, 1): end with a sigmoid dense layer
        let ok = matches!(spec.layers.last(), Some(LayerSpec::Dense { act: ActK::Sigmoid, .. }));
        if !ok {
            spec.layers.push(LayerSpec::Dense { out: t.usize(1, 5), act: ActK::Sigmoid, bias: t.bool(), dropout: None });
        }
    }
    let wmode = [1u32, 3, 5, 6][t.pick(4)];
    if wmode >= 5 {
        // exact zeros sit on the ReLU-family kink: use smooth activations in these cases
        fn smooth(l: &mut LayerSpec) {
            match l {
                LayerSpec::Dense { act, .. } | LayerSpec::Conv { act, .. } | LayerSpec::Deconv { act, .. } => {
                    if *act == ActK::ReLU {
                        *act = ActK::Tanh;
                    } else if *act == ActK::Leaky {
                        *act = ActK::Sigmoid;
                    }
                }
                LayerSpec::Feedback { layers, .. } => layers.iter_mut().for_each(smooth),
                LayerSpec::Pool { .. } => {}
            }
        }
        spec.layers.iter_mut().for_each(smooth);
    }
    Case { spec, obj, softmax_ce, wseed: t.raw(), wmode, xseed: t.raw(), tseed: t.raw(), learn_step: t.chance(1, 3), isolation, connects: vec![], after_learn: !isolation && t.chance(1, 6), late_connects: 0, near_optimum: t.chance(1, 8), wscale: if isolation && t.chance(1, 4) { 5.0 } else { 1.5 } }
}

fn g0_for_scale_max(v: &[f64]) -> f64 {
    v.iter().fold(0.0f64, |a, x| a.max(x.abs()))
}

#[derive(Clone, Copy, PartialEq)]
enum SMode {
    Loss,
    Functional,
}

fn smode(obj: ObjK, softmax_ce: bool) -> SMode {
    if softmax_ce || matches!(obj, ObjK::AE | ObjK::MSE | ObjK::BCE | ObjK::KL) {
        SMode::Loss
    } else {
        SMode::Functional
    }
}

fn scalar_ref(spec: &NetSpec, ps: &RefParams, x: &[f64], t: &[f64], obj: ObjK, mode: SMode, g0: &[f64], connects: &[(usize, usize)]) -> f64 {
    let f = ref_forward(spec, ps, x, connects);
    let out = f.outs.last().unwrap();
    match mode {
        SMode::Loss => rm::loss(obj, out, t),
        SMode::Functional => out.iter().zip(g0.iter()).map(|(a, b)| a * b).sum(),
    }
}

fn scalar_lib(net: &Network, objf: &objective::Function, x: &Tensor, t: &Tensor, mode: SMode, g0: &[f32]) -> Result<f64, String> {
    catch(|| {
        let out = net.predict(x);
        match mode {
            SMode::Loss => objf.loss(&out, t).0 as f64,
            SMode::Functional => tens::flat(&out).iter().zip(g0.iter()).map(|(a, b)| *a as f64 * *b as f64).sum(),
        }
    })
}

/// Which parameter elements are differentiated: all if few, else a deterministic sample.
fn sample_elements(ps: &[(PRef, Tensor)], seed: u32, cap: usize) -> Vec<(usize, usize)> {
    let total: usize = ps.iter().map(|(_, t)| tens::flat(t).len()).sum();
    let mut out = Vec::new();
    if total <= cap + cap / 2 {
        for (i, (_, t)) in ps.iter().enumerate() {
            for e in 0..tens::flat(t).len() {
                out.push((i, e));
            }
        }
        return out;
    }
    let mut m = Mix::new(seed as u64 ^ 0xC01);
    for (i, (_, t)) in ps.iter().enumerate() {
        let n = tens::flat(t).len();
        let quota = (cap * n / total).max(2).min(n);
        out.push((i, 0));
        if n > 1 {
            out.push((i, n - 1));
        }
        for _ in 2..quota {
            out.push((i, m.below(n as u64) as usize));
        }
    }
    out
}

pub fn check(case: &Case, ev: &mut CaseEv, tier: Tier) -> CheckResult {
    let spec = &case.spec;
    let finding: Option<&'static str> = if spec.layers.iter().any(conv_nonunit) {
        Some("conv_backward_nonunit")
    } else if case.softmax_ce {
        Some("softmax_ce_gradient_scale")
    } else {
        None
    };
    let mkfail = |msg: String| -> Fail {
        match finding {
            Some(f) => Fail::known(msg, f),
            None => Fail::new(msg),
        }
    };
    for l in &spec.layers {
        ev.class(format!("has:{}", l.kind()));
    }
    if spec.layers.iter().any(conv_nonunit) {
        ev.class("conv stride/dilation != 1 or padding >= kernel");
    }
    if case.softmax_ce {
        ev.class("softmax+CE");
    }
    if case.isolation && spec.input.len() == 3 && spec.input[1] >= 13 {
        ev.class("single layer on a large map (13-24 a side)");
    }
    ev.class(format!("objective:{:?}", case.obj));

    let connects = case.connects.clone();
    let build_c = |spec: &NetSpec| -> Result<Network, String> {
        let mut n = build(spec)?;
        for (a, b) in &connects {
            let (a, b) = (*a, *b);
            catch(std::panic::AssertUnwindSafe(|| n.connect(a, b)))?;
        }
        Ok(n)
    };
    let late = if case.after_learn { case.late_connects.min(connects.len()) } else { 0 };
    let mut net = if late == 0 {
        build_c(spec)
    } else {
        build(spec).and_then(|mut n| {
            for (a, b) in &connects[..connects.len() - late] {
                let (a, b) = (*a, *b);
                catch(std::panic::AssertUnwindSafe(|| n.connect(a, b)))?;
            }
            Ok(n)
        })
    }
    .map_err(|p| Fail::new(format!("valid architecture rejected: {} ({:?}, connections {:?})", p, spec, case.connects)))?;
    // wmode 5: one whole parameter tensor (e.g. a filter) is exactly zero; wmode 6: some inputs are exactly zero
    let mut ps = seeded_params(&net, spec, case.wseed, if case.wmode >= 5 { 1 } else { case.wmode }, case.wscale);
    if case.wscale > 2.0 {
        ev.class("single layer with weights of scale 5 (saturated units)");
    }
    if case.wmode == 5 && !ps.is_empty() {
        let k = (case.wseed as usize / 7) % ps.len();
        let d = tensor_dims(&ps[k].1);
        ps[k].1 = tens::build(&d, &vec![0.0; count(&d)]);
        // tied copies of a feedback block stay tied
        let (r0, zero) = (ps[k].0, ps[k].1.clone());
        if let (LayerSpec::Feedback { layers, .. }, Some(j)) = (&spec.layers[r0.layer], r0.inner) {
            let len = layers.len();
            for (r, t) in ps.iter_mut() {
                if r.layer == r0.layer && r.tensor == r0.tensor && r.inner.map(|x| x % len) == Some(j % len) {
                    *t = zero.clone();
                }
            }
        }
        ev.class("a parameter tensor exactly zero");
    }
    apply_params(&mut net, &ps);
    let n_in = count(&spec.input);
    if case.after_learn {
        // the same network object goes through two epochs of training first (cached state must not go stale)
        let od = final_dims(spec);
        let prob_obj = matches!(case.obj, ObjK::CE | ObjK::BCE | ObjK::KL);
        let mk = |k: u32| {
            let y = payload(case.tseed ^ k, 1, count(&od), 1.0);
            let y: Vec<f32> = if prob_obj || case.softmax_ce { y.iter().map(|v| 0.05 + 0.45 * (v + 1.0)).collect() } else { y };
            (tens::build(&spec.input, &payload(case.xseed ^ k, 3, n_in, 1.0)), tens::build(&od, &y))
        };
        let (x1, y1) = mk(101);
        let (x2, y2) = mk(202);
        net.set_objective(lib_obj(ObjK::MSE), None);
        net.set_optimizer(optimizer::SGD::create(0.03125, None));
        let r = catch(std::panic::AssertUnwindSafe(|| net.learn(&vec![&x1, &x2], &vec![&y1, &y2], None, 2, 2, None)));
        if let Err(p) = r {
            if p.contains("Loss is NaN") {
                ev.discard = Some("pre-training diverged to NaN");
                return Ok(());
            }
            return Err(mkfail(format!("learn() panicked on a valid network: {} ({:?})", p, spec)));
        }
        ps = collect_params(&net);
        if ps.iter().any(|(_, t)| tens::flat(t).iter().any(|v| !v.is_finite() || v.abs() > 1e3)) {
            ev.discard = Some("pre-training blew the weights up");
            return Ok(());
        }
        ev.class("gradients checked after learn() on the same network object");
        if late > 0 {
            for (a, b) in &connects[connects.len() - late..] {
                let (a, b) = (*a, *b);
                catch(std::panic::AssertUnwindSafe(|| net.connect(a, b))).map_err(|p| Fail::new(format!("connect({}, {}) after training was rejected although it is accepted before training: {}", a, b, p)))?;
            }
            ev.class("skip connection(s) added after training on the same network object");
        }
    }
    let rps = to_ref_params(&ps);
    let mut x = payload(case.xseed, 3, n_in, 1.0);
    if case.wmode == 6 {
        for (i, v) in x.iter_mut().enumerate() {
            if (case.xseed as usize >> (i % 24)) & 1 == 0 {
                *v = 0.0;
            }
        }
        ev.class("exact zeros in the input");
    }
    let xd: Vec<f64> = x.iter().map(|v| *v as f64).collect();
    let xt = tens::build(&spec.input, &x);

    // base point in the reference
    let rf = ref_forward(spec, &rps, &xd, &case.connects);
    let out_ref = rf.outs.last().unwrap().clone();
    let out_dims = rf.out_dims.last().unwrap().clone();
    if !(rf.kink > 2e-3 && rf.tie > 2e-3) {
        ev.discard = Some("near activation kink or max-pool tie");
        return Ok(());
    }
    if !out_ref.iter().all(|v| v.is_finite() && v.abs() < 1e6) {
        ev.discard = Some("non-finite / huge output");
        return Ok(());
    }
    // target
    let mut m = Mix::new(case.tseed as u64);
    let n_out = out_ref.len();
    let target: Vec<f32> = if case.softmax_ce {
        if m.below(2) == 0 {
            let hot = m.below(n_out as u64) as usize;
            (0..n_out).map(|i| if i == hot { 1.0 } else { 0.0 }).collect()
        } else {
            let raw: Vec<f64> = (0..n_out).map(|_| m.unit() + 0.05).collect();
            let s: f64 = raw.iter().sum();
            raw.iter().map(|v| (v / s) as f32).collect()
        }
    } else if matches!(case.obj, ObjK::CE | ObjK::BCE | ObjK::KL) {
        (0..n_out).map(|_| m.f32_in(0.05, 0.95)).collect()
    } else {
        (0..n_out).map(|i| (out_ref[i] + (0.1 + 0.9 * m.unit()) * if m.below(2) == 0 { 1.0 } else { -1.0 }) as f32).collect()
    };
    let td: Vec<f64> = target.iter().map(|v| *v as f64).collect();
    if matches!(case.obj, ObjK::CE | ObjK::BCE | ObjK::KL) && !out_ref.iter().all(|p| *p > 1e-3 && *p < 1.0 - 1e-3) {
        if case.isolation {
            // single layers are checked through the functional below, not through the objective
        } else {
            ev.discard = Some("probability objective with output outside (1e-3, 1-1e-3)");
            return Ok(());
        }
    }
    let tt = tens::build(&out_dims, &target);
    // `near_optimum`: a frozen output gradient of magnitude ~1e-7 is back-propagated (what training close to
    // an optimum hands to the backward pass); the compared scalar is the linear functional <g0, f(x; theta)>
    let tiny = case.near_optimum && !case.softmax_ce;
    let mode = if case.isolation || tiny { SMode::Functional } else { smode(case.obj, case.softmax_ce) };
    let g0d = rm::loss_grad(case.obj, &out_ref, &td);
    let g0: Vec<f32> = if tiny { payload(case.tseed ^ 0x71, 1, n_out, 1e-7) } else { g0d.iter().map(|v| *v as f32).collect() };
    let g0d: Vec<f64> = g0.iter().map(|v| *v as f64).collect();
    // absolute part of the tolerances: single-precision noise of sums whose terms are of the size of the
    // back-propagated output gradient times O(1) activations (cancellation makes it absolute, not relative)
    let g0_for_scale: Vec<f64> = if mode == SMode::Functional { g0d.clone() } else { rm::loss_grad(case.obj, &out_ref, &td) };
    // the objective's own gradient is computed by the library from single-precision outputs: where it
    // cancels (p close to t) its relative error is large; measure that conditioning on the reference
    // (this applies whenever the library derives the output gradient from its own single-precision output, i.e.
    // in every case except the frozen-gradient ones: isolated layers and the tiny-g0 mode)
    let g0_cond: f64 = if !case.isolation && !tiny {
        let up: Vec<f64> = out_ref.iter().map(|p| p * (1.0 + 2.4e-7) + 1e-38).collect();
        let dn: Vec<f64> = out_ref.iter().map(|p| p * (1.0 - 2.4e-7) - 1e-38).collect();
        let (gu, gd) = (rm::loss_grad(case.obj, &up, &td), rm::loss_grad(case.obj, &dn, &td));
        let dmax = gu.iter().zip(gd.iter()).fold(0.0f64, |a, (x, y)| a.max((x - y).abs()));
        let gmax0 = g0_for_scale_max(&rm::loss_grad(case.obj, &out_ref, &td));
        if gmax0 > 0.0 { dmax / gmax0 } else { 0.0 }
    } else {
        0.0
    };
    let noise = 2e-6 * g0_for_scale.iter().fold(0.0f64, |a, v| a.max(v.abs())) * (1.0 + out_ref.iter().fold(0.0f64, |a, v| a.max(v.abs()))) + 1e-30;

    // library forward and gradients
    let objf = objective::Function::create(lib_obj(case.obj), None);
    let lib_out = catch(|| net.predict(&xt)).map_err(|p| Fail::new(format!("predict panicked on a valid network {:?}: {}", spec, p)))?;
    ensure!(tens::flat(&lib_out).len() == n_out, "harness: output sizes differ ({} vs {})", tens::flat(&lib_out).len(), n_out);
    let tt = if lib_out.shape == tt.shape { tt } else { Tensor::single(target.clone()) };

    // single dense / convolution / deconvolution layer: component-wise error bounds replace the norm-wise tolerance
    let iso_bounds: Option<(Vec<f64>, Vec<Vec<f64>>)> = if case.isolation && !matches!(spec.layers[0], LayerSpec::Feedback { .. } | LayerSpec::Pool { .. }) {
        let mut p0: Vec<(usize, Vec<f64>)> = rps.iter().filter(|(r, _)| r.layer == 0 && r.inner.is_none()).map(|(r, d)| (r.tensor, d.clone())).collect();
        p0.sort_by_key(|x| x.0);
        let p0: Vec<Vec<f64>> = p0.into_iter().map(|x| x.1).collect();
        isolation_bounds(&spec.layers[0], &p0, &xd, &spec.input, &g0d)
    } else {
        None
    };
    // resolution of the f64 central differences themselves (rounding 1e-16 |S| / h, truncation h^2 |S'''| / 6)
    let ref_noise = 3e-9 * g0d.iter().map(|v| v.abs()).sum::<f64>() + 1e-37;
    if iso_bounds.is_some() {
        ev.class("isolation: component-wise error bounds");
    }
    // --- parameter gradients from the library
    let lib_grads: Vec<(PRef, Tensor)> = if case.isolation {
        // public per-layer backward with the frozen output gradient g0
        let layer = &net.layers[0];
        let gt = tens::build(&out_dims, &g0);
        let res = catch(|| {
            let (pre, act, maxp, fbs) = net.forward(&xt);
            match layer {
                Layer::Dense(l) => {
                    let (ig, wg, bg) = l.backward(&gt, &act[0], &pre[0]);
                    (ig, grad_tensors_for_layer(layer, &wg, &bg))
                }
                Layer::Convolution(l) => {
                    let (ig, wg, bg) = l.backward(&gt, &act[0], &pre[0]);
                    (ig, grad_tensors_for_layer(layer, &wg, &bg))
                }
                Layer::Deconvolution(l) => {
                    let (ig, wg, bg) = l.backward(&gt, &act[0], &pre[0]);
                    (ig, grad_tensors_for_layer(layer, &wg, &bg))
                }
                Layer::Maxpool(l) => (l.backward(&gt, maxp[0].as_ref().unwrap()), vec![]),
                Layer::Feedback(fb) => {
                    let (ig, wg, bg) = fb.backward(&gt, &fbs[0]);
                    let wgs = wg.unnested();
                    let bgs = bg.unwrap().unnestedoptional();
                    let mlen = fb.layers.len();
                    let mut v = Vec::new();
                    for (j, il) in fb.layers.iter().enumerate() {
                        v.extend(grad_tensors_for_layer(il, &wgs[mlen - 1 - j], &bgs[mlen - 1 - j]));
                    }
                    (ig, v)
                }
            }
        });
        let (ig, ptensors) = match res {
            Ok(v) => v,
            Err(p) => return Err(mkfail(format!("{} backward panicked on a valid configuration {:?} (input {:?}): {}", spec.layers[0].kind(), spec.layers[0], spec.input, p))),
        };
        // input gradient = derivative of <g0, layer(x)> with respect to the layer's input
        let igf = tens::flat(&ig);
        if igf.len() != n_in {
            return Err(mkfail(format!("{} backward: input gradient has {} elements (shape {:?}), the layer's input has {} ({:?}); config {:?}", spec.layers[0].kind(), igf.len(), ig.shape, n_in, spec.input, spec.layers[0])));
        }
        let ginf = igf.iter().fold(0.0f64, |a, v| a.max(v.abs() as f64));
        let mut worst = 0.0f64;
        let mut gref_inf = 0.0f64;
        let mut refs = Vec::with_capacity(n_in);
        for i in 0..n_in {
            let h = 1e-6 * xd[i].abs().max(1.0);
            let mut a = xd.clone();
            let mut b = xd.clone();
            a[i] += h;
            b[i] -= h;
            let d = (scalar_ref(spec, &rps, &a, &td, case.obj, mode, &g0d, &case.connects) - scalar_ref(spec, &rps, &b, &td, case.obj, mode, &g0d, &case.connects)) / (2.0 * h);
            gref_inf = gref_inf.max(d.abs());
            refs.push(d);
        }
        for i in 0..n_in {
            let tol = match &iso_bounds {
                Some((ib, _)) => 8.0 * ib[i] + ref_noise,
                None => (2e-4 + 4.0 * g0_cond) * refs[i].abs() + (1e-4 + 4.0 * g0_cond) * gref_inf.max(ginf) + noise,
            };
            let err = (igf[i] as f64 - refs[i]).abs();
            worst = worst.max(err / tol);
            if err > tol {
                return Err(mkfail(format!(
                    "{} backward: gradient handed to the preceding layer, component {}: library {:e}, derivative with respect to the input {:e} (config {:?}, input {:?})",
                    spec.layers[0].kind(), i, igf[i], refs[i], spec.layers[0], spec.input
                )));
            }
        }
        ev.ratio(if iso_bounds.is_some() { "input_gradient_componentwise" } else { "input_gradient" }, worst);
        ev.class("isolation:input-gradient");
        let refs_p = collect_params(&net);
        ensure!(refs_p.len() == ptensors.len(), "harness: {} parameter tensors but {} gradient tensors", refs_p.len(), ptensors.len());
        refs_p.iter().zip(ptensors.into_iter()).map(|((r, _), t)| (*r, t)).collect()
    } else {
        let r = if tiny { lib_gradients_g0(&net, &xt, &tens::build(&out_dims, &g0)).map(|g| (0.0f32, g)) } else { lib_gradients(&net, &objf, &xt, &tt) };
        match r {
            Ok((_, g)) => g,
            Err(p) => return Err(mkfail(format!("backward pass panicked on a valid network: {} ({:?})", p, spec))),
        }
    };

    // gradient shapes equal parameter shapes
    ensure!(lib_grads.len() == ps.len(), "harness: gradient/parameter tensor count");
    for ((r, g), (r2, p)) in lib_grads.iter().zip(ps.iter()) {
        ensure!(r == r2, "harness: parameter addressing");
        if tens::data_dims(g) != tens::data_dims(p) {
            return Err(mkfail(format!("gradient of parameter {:?} has shape {:?}, the parameter has {:?} ({:?})", r, tens::data_dims(g), tens::data_dims(p), spec.layers[r.layer])));
        }
    }

    // --- which path: does the f64 reference reproduce the library's forward?
    let lib_of = tens::flat(&lib_out);
    let scale = out_ref.iter().fold(1.0f64, |a, v| a.max(v.abs()));
    let mut p1 = lib_of.iter().zip(out_ref.iter()).all(|(a, b)| (*a as f64 - b).abs() <= 3e-4 * scale);
    if p1 {
        // also at two perturbed parameter points
        for k in 0..2u32 {
            let ps2: Vec<(PRef, Tensor)> = ps
                .iter()
                .map(|(r, t)| {
                    let d = tensor_dims(t);
                    let f = tens::flat(t);
                    let pert = payload(case.wseed ^ (77 + k), 1, f.len(), 0.05);
                    (*r, tens::build(&d, &f.iter().zip(pert.iter()).map(|(a, b)| a + b).collect::<Vec<f32>>()))
                })
                .collect();
            let mut n2 = build_c(spec).map_err(Fail::new)?;
            apply_params(&mut n2, &ps2);
            let o2 = catch(|| tens::flat(&n2.predict(&xt))).map_err(Fail::new)?;
            let r2 = ref_forward(spec, &to_ref_params(&ps2), &xd, &case.connects);
            let sc = r2.outs.last().unwrap().iter().fold(1.0f64, |a, v| a.max(v.abs()));
            if !(r2.kink > 1e-4 && r2.tie > 1e-4) {
                continue;
            }
            if !o2.iter().zip(r2.outs.last().unwrap().iter()).all(|(a, b)| (*a as f64 - b).abs() <= 3e-4 * sc) {
                p1 = false;
            }
        }
    }
    ev.class(if p1 { "path:P1(f64 reference)" } else { "path:P2(library finite differences)" });

    // --- reference derivatives
    let elems = sample_elements(&ps, case.wseed, tier.pick(300, 200));
    let lib_flat: Vec<Vec<f32>> = lib_grads.iter().map(|(_, t)| tens::flat(t)).collect();
    let ginf = lib_flat.iter().flat_map(|v| v.iter()).fold(0.0f64, |a, v| a.max(v.abs() as f64));
    let mut refs: Vec<f64> = Vec::with_capacity(elems.len());
    let base_lib_s = scalar_lib(&net, &objf, &xt, &tt, mode, &g0).map_err(Fail::new)?;
    for (pi, e) in &elems {
        let d = if p1 {
            let v0 = rps[*pi].1[*e];
            let h = 1e-6 * v0.abs().max(1.0);
            let mut a = rps.clone();
            let mut b = rps.clone();
            a[*pi].1[*e] = v0 + h;
            b[*pi].1[*e] = v0 - h;
            (scalar_ref(spec, &a, &xd, &td, case.obj, mode, &g0d, &case.connects) - scalar_ref(spec, &b, &xd, &td, case.obj, mode, &g0d, &case.connects)) / (2.0 * h)
        } else {
            // library's own forward + loss, f32, central differences with Richardson extrapolation
            let d_at = |h: f32| -> Result<f64, String> {
                let mut vals = [0.0f64; 2];
                for (k, sgn) in [1.0f32, -1.0].iter().enumerate() {
                    let mut ps2 = ps.clone();
                    let dims = tensor_dims(&ps2[*pi].1);
                    let mut f = tens::flat(&ps2[*pi].1);
                    f[*e] += sgn * h;
                    ps2[*pi].1 = tens::build(&dims, &f);
                    // exact step actually taken in f32
                    let mut n2 = build_c(spec)?;
                    apply_params(&mut n2, &ps2);
                    vals[k] = scalar_lib(&n2, &objf, &xt, &tt, mode, &g0)?;
                }
                let v0 = tens::flat(&ps[*pi].1)[*e];
                let step = ((v0 + h) as f64) - ((v0 - h) as f64);
                Ok((vals[0] - vals[1]) / step)
            };
            let h = 1.0f32 / 128.0;
            let d1 = d_at(h).map_err(Fail::new)?;
            let d2 = d_at(h / 2.0).map_err(Fail::new)?;
            (4.0 * d2 - d1) / 3.0
        };
        refs.push(d);
    }
    let gref_inf = refs.iter().fold(0.0f64, |a, v| a.max(v.abs()));
    if !refs.iter().all(|v| v.is_finite()) {
        ev.discard = Some("non-finite reference derivative");
        return Ok(());
    }
    let mut worst = 0.0f64;
    for (k, (pi, e)) in elems.iter().enumerate() {
        let g = lib_flat[*pi][*e] as f64;
        // scale-free in the output gradient: relative terms plus 2e-6 * max|g0| * (1 + max|output|)
        let tol = match (&iso_bounds, p1) {
            (Some((_, pb)), true) => 8.0 * pb[*pi][*e] + ref_noise,
            (_, true) => (2e-4 + 4.0 * g0_cond) * refs[k].abs() + (1e-4 + 4.0 * g0_cond) * gref_inf.max(ginf) + noise,
            (_, false) => 2e-3 * (gref_inf.max(ginf) + base_lib_s.abs()) + 1e-5,
        };
        let err = (g - refs[k]).abs();
        worst = worst.max(err / tol);
        if !(err <= tol) {
            let r = ps[*pi].0;
            return Err(mkfail(format!(
                "gradient of parameter {:?} element {} ({} layer): library {:e}, true partial derivative {:e} (path {}, |g|max {:e}); objective {:?}{}; spec {:?}",
                r, e, spec.layers[r.layer].kind(), g, refs[k], if p1 { "P1" } else { "P2" }, gref_inf, case.obj, if case.softmax_ce { " on soft-max" } else { "" }, spec
            )));
        }
    }
    ev.ratio(if p1 && iso_bounds.is_some() { "param_gradient_componentwise" } else if p1 { "param_gradient_P1" } else { "param_gradient_P2" }, worst);
    ev.units = elems.len() as u64;

    // --- end to end through the public API: one plain-SGD learn() step on this sample
    if case.learn_step && !case.isolation && !tiny {
        let lr = 0.125f32;
        let mut n3 = build_c(spec).map_err(Fail::new)?;
        apply_params(&mut n3, &ps);
        n3.set_objective(lib_obj(case.obj), None);
        n3.set_optimizer(optimizer::SGD::create(lr, None));
        let r = catch(|| {
            let xs = vec![&xt];
            let ts = vec![&tt];
            n3.learn(&xs, &ts, None, 1, 1, None)
        });
        match r {
            Err(p) => return Err(mkfail(format!("learn() panicked on one sample of a valid network: {} ({:?})", p, spec))),
            Ok(_) => {
                let after = collect_params(&n3);
                for (pi, ((ra, a), (_, b))) in after.iter().zip(ps.iter()).enumerate() {
                    let (fa, fb) = (tens::flat(a), tens::flat(b));
                    // feedback blocks re-couple their copies after the step (mean of the updated copies)
                    let copies: Vec<usize> = match (&spec.layers[ra.layer], ra.inner) {
                        (LayerSpec::Feedback { layers, loops, .. }, Some(j)) => {
                            let pos = j % layers.len();
                            (0..*loops).map(|rep| ps.iter().position(|(r, _)| r.layer == ra.layer && r.inner == Some(rep * layers.len() + pos) && r.tensor == ra.tensor).unwrap()).collect()
                        }
                        _ => vec![pi],
                    };
                    for e in 0..fa.len() {
                        let want = copies.iter().map(|c| tens::flat(&ps[*c].1)[e] as f64 - lr as f64 * lib_flat[*c][e] as f64).sum::<f64>() / copies.len() as f64;
                        let tol = 1e-5 * want.abs().max(fb[e].abs() as f64) + 1e-6;
                        if (fa[e] as f64 - want).abs() > tol {
                            return Err(mkfail(format!(
                                "one SGD learn() step changed parameter {:?}[{}] from {:e} to {:e}; -lr * (gradient reported by backward{}) gives {:e}",
                                ps[pi].0, e, fb[e], fa[e], if copies.len() > 1 { ", averaged over the tied copies" } else { "" }, want
                            )));
                        }
                    }
                }
                ev.class("learn-step-checked");
            }
        }
    }

    let depth = spec.layers.len();
    let nondefault = spec.layers.iter().any(|l| match l {
        LayerSpec::Conv { cfg, .. } | LayerSpec::Deconv { cfg, .. } => cfg.stride != (1, 1) || cfg.dilation != (1, 1) || cfg.padding != (0, 0),
        _ => false,
    });
    let multi_ch = spec.input.len() == 3 && spec.input[0] >= 2;
    let has_fb = spec.layers.iter().any(|l| matches!(l, LayerSpec::Feedback { .. }));
    if tiny {
        ev.class("tiny frozen output gradient (~1e-7)");
    }
    ev.nontrivial = (ginf.max(gref_inf) > 1e-3 || tiny) && (depth >= 2 || nondefault || multi_ch || has_fb);
    ev.set_sig(&(spec, case.obj, case.softmax_ce, case.isolation));
    Ok(())
}

pub struct C01(pub Tier);

impl Prop for C01 {
    fn id(&self) -> &'static str {
        "C01"
    }
    fn tape_len(&self, _t: Tier) -> usize {
        128
    }
    fn cases(&self, t: Tier) -> usize {
        t.pick(60_000, 3_000_000)
    }
    fn rule(&self) -> String {
        "tape-decoded network: input flat 1..8 or c x h x w (c 1-3, h,w 1-7, thorough 9; non-square), 1-4 (thorough 6) layers of dense / convolution / deconvolution / max-pool / feedback block without internal skips in any order that fits, full (filters, kernel, stride, padding, dilation, bias) lattice, element-wise activations, soft-max + cross-entropy head in 1/6 of the cases, all seven objectives, distinct non-constant weights and inputs; 1/4 of the cases are single layers whose public backward() is called in isolation (one in 150 of them on a map of 13-24 pixels a side with kernels up to 5; a quarter of them with weights of scale 5, i.e. saturated tanh / logistic units; dense / convolution / deconvolution layers are then judged by component-wise error bounds instead of a norm-wise tolerance); in 1/6 of the other cases the same network object first goes through two epochs of learn() and the gradients are checked at the trained weights; parameter tensors that are exactly zero and inputs with exact zeros occur (with smooth activations). Oracle: central differences of an independent f64 reference network (path P1, used when the reference reproduces the library's forward pass at the base point and two perturbed points) or of the library's own f32 forward pass with Richardson extrapolation (path P2); every parameter (sampled above 300) and, for isolated layers, every input-gradient component; one learn() step with plain SGD must move each parameter by -lr * gradient. Cases within 2e-3 of an activation kink / pooling tie are discarded (counted). Non-trivial: |g|max > 1e-3 and (depth >= 2 or non-default stride/dilation/padding or >= 2 channels or a feedback block). Distinct = (architecture with all hyper-parameters and activations, objective, soft-max flag).".into()
    }
    fn assumptions(&self) -> Vec<String> {
        vec![
            "for MAE, RMSE and cross-entropy without soft-max the compared scalar is <g0, f(x; theta)> with g0 the objective's documented gradient frozen at the base point (back-propagation = transposed Jacobian); for AE, MSE, BCE, KL and soft-max + CE it is the loss itself".into(),
            "tolerance P1: 2e-4 |g_ref| + 1e-4 |g|max + 2e-6 max|g0| (1 + max|output|), g0 = gradient handed to the last layer (so the check is scale-free in g0), relative terms widened by 4x the measured conditioning of the objective's own gradient (p close to t); P2: 2e-3 (|g|max + |S|)".into(),
            "single dense / convolution / deconvolution layers: |g_lib - g_ref| <= 8 sum_o |g0_o| (|act'(z_o)| ((32 + terms) eps + C dz_o) + A) |dz_o/d.| + 3e-9 sum|g0| (component-wise backward error of evaluating g0 * act'(z) in single precision and applying the transposed operator; dz_o = 4 (n+2) eps sum|w x| the rounding error of the pre-activation, C = 2 / 1 / 0 for tanh / logistic / piecewise-linear, A = 2e-7 the absolute accuracy of s(1-s) for saturated s as granted by C07; the last term is the resolution of the f64 central differences); worst observed ratio 0.04".into(),
            "gradients inside feedback blocks are compared per unrolled copy (the library updates copies independently and re-couples them afterwards)".into(),
        ]
    }
    fn run_case(&self, tape: &[u32], ev: &mut CaseEv) -> CheckResult {
        check(&decode(tape, self.0), ev, self.0)
    }
    fn describe(&self, tape: &[u32]) -> Value {
        let c = decode(tape, self.0);
        json!({"spec": format!("{:?}", c.spec), "objective": format!("{:?}", c.obj), "softmax_ce": c.softmax_ce, "isolation": c.isolation, "learn_step": c.learn_step})
    }
}

pub fn run(eng: &Engine, replay_path: Option<&str>) -> i32 {
    let p = C01(eng.tier);
    if let Some(path) = replay_path {
        return replay(&p, eng, path);
    }
    standard_run(&p, eng)
}

#[allow(dead_code)]
fn _unused() -> CheckResult {
    fail!("unused")
}
