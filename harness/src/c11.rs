//! C11 — a feedback block computes the repeated, optionally skip-combined, layer sequence.
//!
//! The oracle is a model written from the statement, composed from the library's own public
//! single-layer forwards (checked by C02); the skip accumulations are computed by the harness.

use crate::engine::*;
use crate::fcmp::ulps32;
use crate::net::*;
use crate::refmodel::ActK;
use crate::tape::{payload, Tape};
use crate::tens;
use crate::{ensure, fail};
use neurons::network::Layer;
use neurons::tensor::Tensor;
use serde_json::{json, Value};

#[derive(Debug, Clone)]
struct Case {
    spec: NetSpec,
    wseed: u32,
    xseed: u32,
    /// Network::set_accumulation(skip, loop) is called after the block was added (must not affect the block)
    net_acc: Option<(Acc, Acc)>,
    /// block input class: 0 ordinary, 1 all-zero
    zero_input: bool,
}

fn decode(tape: &[u32]) -> Case {
    let mut t = Tape::new(tape);
    let o = GenOpts { acts: &[ActK::Linear, ActK::Tanh, ActK::Sigmoid, ActK::ReLU, ActK::Leaky], max_hw: 5, ..GenOpts::default() };
    // wide flat blocks (element counts beyond 64 / 256 / 1024): one case in 40 has 65-300 elements, one in 600 1025-2100
    let wide = if t.chance(1, 600) { Some(t.usize(1025, 2100)) } else if t.chance(1, 40) { Some(t.usize(65, 300)) } else { None };
    let input = if let Some(n) = wide { vec![n] } else if t.bool() { vec![t.usize(1, 3), t.usize(1, 5), t.usize(1, 5)] } else { vec![t.usize(1, 6)] };
    let mut fb = gen_feedback(&mut t, &input, &o, true, true);
    if let LayerSpec::Feedback { loops, layers, .. } = &mut fb {
        *loops = t.usize(1, 4);
        // one spatial block in five is a shrinking / growing pair (a max-pool inside the block, first or last)
        if input.len() == 3 && input[1] >= 2 && input[2] >= 2 && t.chance(1, 5) {
            let c = input[0];
            let pool = LayerSpec::Pool { kernel: (2, 2), stride: (1, 1) };
            let deconv = LayerSpec::Deconv { cfg: crate::refmodel::ConvCfg { filters: c, kernel: (2, 2), stride: (1, 1), padding: (0, 0), dilation: (1, 1) }, act: gen_act(&mut t, &o), dropout: None };
            *layers = if t.bool() { vec![pool, deconv] } else { vec![deconv, pool] };
        }
        if let Some(n) = wide {
            // narrow waist, so that the cost stays linear in the width
            *layers = vec![
                LayerSpec::Dense { out: t.usize(1, 6), act: gen_act(&mut t, &o), bias: t.bool(), dropout: None },
                LayerSpec::Dense { out: n, act: gen_act(&mut t, &o), bias: t.bool(), dropout: None },
            ];
        }
    }
    let mut layers = vec![fb];
    if t.bool() {
        layers.push(LayerSpec::Dense { out: t.usize(1, 5), act: gen_act(&mut t, &o), bias: t.bool(), dropout: None });
    }
    Case { spec: NetSpec { input, layers }, wseed: t.raw(), xseed: t.raw(), net_acc: if t.chance(1, 3) { Some((ACCS[t.pick(5)], ACCS[t.pick(5)])) } else { None }, zero_input: t.chance(1, 8) }
}

/// `acc(base; others)` computed element-wise by the harness itself (no library tensor arithmetic,
/// so that a defect in a shared primitive cannot hide on both sides of the comparison).
pub fn accumulate(acc: Acc, base: &Tensor, others: &[Tensor]) -> Tensor {
    if others.is_empty() {
        return base.clone(); // empty combination
    }
    let dims = tens::shape_dims(&base.shape);
    let b = tens::flat(base);
    let os: Vec<Vec<f32>> = others.iter().map(tens::flat).collect();
    for o in &os {
        assert_eq!(o.len(), b.len(), "accumulate: element counts differ");
    }
    let out: Vec<f32> = (0..b.len())
        .map(|i| match acc {
            Acc::Add => os.iter().fold(b[i], |a, o| a + o[i]),
            Acc::Sub => os.iter().fold(b[i], |a, o| a - o[i]),
            Acc::Mul => os.iter().fold(b[i], |a, o| a * o[i]),
            Acc::Mean => (b[i] + os.iter().fold(0.0f32, |a, o| a + o[i])) / (os.len() as f32 + 1.0),
            Acc::Overwrite => os[os.len() - 1][i],
        })
        .collect();
    tens::build(&dims, &out)
}

fn check(case: &Case, ev: &mut CaseEv) -> CheckResult {
    let spec = &case.spec;
    let LayerSpec::Feedback { layers: inner, loops, inskips, outskips, acc } = &spec.layers[0] else { panic!("first layer is the block") };
    let (loops, inskips, outskips, acc) = (*loops, *inskips, *outskips, *acc);
    let followed = spec.layers.len() == 2;
    ev.class(format!("acc:{:?}", acc));
    ev.class(format!("loops{}", loops));
    ev.class(format!("skips:in={},out={}", inskips, outskips));
    ev.class(if spec.input.len() == 3 { "spatial block" } else { "flat block" });
    if let Some(LayerSpec::Pool { .. }) = inner.first() {
        ev.class("block starting with a max-pool");
    } else if inner.iter().any(|l| matches!(l, LayerSpec::Pool { .. })) {
        ev.class("block containing a max-pool");
    }
    if spec.input.len() == 1 && spec.input[0] > 64 {
        ev.class(if spec.input[0] > 1024 { "wide flat block (> 1024 elements)" } else { "wide flat block (65-300 elements)" });
    }
    if followed {
        ev.class("dense follows");
    }
    let l1_outskip = loops == 1 && outskips && matches!(acc, Acc::Overwrite | Acc::Mean);

    let mut net = build(spec).map_err(|p| Fail::new(format!("valid feedback network rejected: {} ({:?})", p, spec)))?;
    if let Some((sa, la)) = case.net_acc {
        net.set_accumulation(sa.lib(), la.lib());
        ev.class("Network::set_accumulation called after the block was added");
    }
    let ps = seeded_params(&net, spec, case.wseed, 1, 1.0);
    apply_params(&mut net, &ps);
    let mut x = payload(case.xseed, 3, count(&spec.input), 1.0);
    if case.zero_input {
        x.iter_mut().for_each(|v| *v = 0.0);
        ev.class("all-zero block input");
    }
    let xt = tens::build(&spec.input, &x);

    // model
    let Layer::Feedback(fb) = &net.layers[0] else { panic!("feedback layer") };
    let len = inner.len();
    ensure!(fb.layers.len() == len * loops, "block holds {} unrolled layers, expected {} x {}", fb.layers.len(), len, loops);
    let apply_rep = |rep: usize, input: &Tensor| -> Result<Tensor, String> {
        catch(|| {
            let mut cur = input.clone();
            for j in 0..len {
                let (_, post) = layer_forward(&fb.layers[rep * len + j], &cur);
                cur = post;
            }
            cur
        })
    };
    let mut reps: Vec<Tensor> = Vec::new();
    let mut model_err: Option<String> = None;
    for i in 0..loops {
        let input = if i == 0 {
            xt.clone()
        } else if inskips {
            accumulate(acc, &reps[i - 1], &[xt.clone()])
        } else {
            reps[i - 1].clone()
        };
        match apply_rep(i, &input) {
            Ok(r) => reps.push(r),
            Err(p) => {
                model_err = Some(p);
                break;
            }
        }
    }
    if let Some(p) = model_err {
        fail!("harness model: a block layer panicked on a shape-preserving block: {} ({:?})", p, spec);
    }
    let mut out = if outskips { accumulate(acc, &reps[loops - 1], &reps[..loops - 1]) } else { reps[loops - 1].clone() };
    if followed {
        out = out.flatten();
        let (_, post) = catch(|| layer_forward(&net.layers[1], &out)).map_err(Fail::new)?;
        out = post;
    }

    let got = match catch(|| net.predict(&xt)) {
        Ok(g) => g,
        Err(p) => {
            let msg = format!("predict panicked on feedback block (loops {}, inskips {}, outskips {}, {:?}): {}; spec {:?}", loops, inskips, outskips, acc, p, spec);
            if l1_outskip {
                return Err(Fail::known(msg, "feedback_single_loop_outskips"));
            }
            fail!("{}", msg);
        }
    };
    ensure!(got.shape == out.shape, "block output shape {:?}, model {:?}{}", got.shape, out.shape, if followed { "" } else { " (not flattened: no dense layer follows)" });
    let (g, m) = (tens::flat(&got), tens::flat(&out));
    let mut worst = 0u64;
    for i in 0..g.len() {
        if !m[i].is_finite() || !g[i].is_finite() {
            ensure!(g[i].to_bits() == m[i].to_bits() || (g[i].is_nan() && m[i].is_nan()), "non-finite mismatch at {}", i);
            continue;
        }
        let d = ulps32(g[i], m[i]);
        worst = worst.max(d);
        ensure!(
            d <= 2,
            "feedback block (loops {}, inskips {}, outskips {}, {:?}{}): output element {} is {:e}, the repeated skip-combined sequence gives {:e}; spec {:?}",
            loops, inskips, outskips, acc, if followed { ", dense follows" } else { "" }, i, g[i], m[i], spec
        );
    }
    ev.ratio("ulps/2", worst as f64 / 2.0);
    ev.nontrivial = loops >= 2 || inskips || outskips;
    ev.set_sig(spec);
    Ok(())
}

pub struct C11;

impl Prop for C11 {
    fn id(&self) -> &'static str {
        "C11"
    }
    fn tape_len(&self, _t: Tier) -> usize {
        48
    }
    fn cases(&self, t: Tier) -> usize {
        t.pick(400_000, 30_000_000)
    }
    fn rule(&self) -> String {
        "tape-decoded feedback block: flat (dense n -> n or n -> m -> n, n 1..6; one case in 40 with n 65..300 and one in 600 with n 1025..2100, narrow waist) or spatial (1-2 shape-preserving convolution / deconvolution layers on c 1-3 x h,w 1-5; one in five: a 2x2 max-pool + 2x2 deconvolution pair in either order), loops 1..4, the four skip-flag combinations, the five accumulations, followed or not by a dense layer, tied distinct weights set through the hooks, random inputs. Oracle: r1 = F(x), ri = F(acc(r(i-1); x)) with input skips else F(r(i-1)); output acc(rL; r1..r(L-1)) with output skips else rL; flattened when a dense layer follows - composed from the library's own single-layer forwards (the accumulations are computed by the harness element-wise); compared to predict within 2 ulp (bit-identical on the current tree). Non-trivial: loops >= 2 or a skip flag set. Distinct = full block specification.".into()
    }
    fn run_case(&self, tape: &[u32], ev: &mut CaseEv) -> CheckResult {
        check(&decode(tape), ev)
    }
    fn describe(&self, tape: &[u32]) -> Value {
        json!(format!("{:?}", decode(tape).spec))
    }
}

pub fn run(eng: &Engine, replay_path: Option<&str>) -> i32 {
    let p = C11;
    if let Some(path) = replay_path {
        return replay(&p, eng, path);
    }
    standard_run(&p, eng)
}
