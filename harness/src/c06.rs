//! C06 — objective functions return the documented loss and gradient.

use crate::engine::*;
use crate::tape::{Mix, Tape};
use crate::tens;
use crate::{ensure, fail};
use neurons::objective::{Function, Objective};
use neurons::tensor::Tensor;
use serde_json::{json, Value};

#[derive(Debug, Clone, Copy, PartialEq, Eq, Hash)]
pub enum Obj {
    AE,
    MAE,
    MSE,
    RMSE,
    CE,
    BCE,
    KL,
}
pub const OBJS: [Obj; 7] = [Obj::AE, Obj::MAE, Obj::MSE, Obj::RMSE, Obj::CE, Obj::BCE, Obj::KL];

pub fn make(o: Obj, clamp: Option<(f32, f32)>) -> Function {
    Function::create(
        match o {
            Obj::AE => Objective::AE,
            Obj::MAE => Objective::MAE,
            Obj::MSE => Objective::MSE,
            Obj::RMSE => Objective::RMSE,
            Obj::CE => Objective::CrossEntropy,
            Obj::BCE => Objective::BinaryCrossEntropy,
            Obj::KL => Objective::KLDivergence,
        },
        clamp,
    )
}

pub const EPS: f32 = 1e-6;

fn is_prob(o: Obj) -> bool {
    matches!(o, Obj::CE | Obj::BCE | Obj::KL)
}

/// Per-element loss term and gradient by the documented formulas, in f64, on the f32 inputs.
/// Returns (term, gradient, in_eps_zone).
pub fn ref_elem(o: Obj, p: f32, t: f32, n: usize) -> (f64, f64, bool) {
    let (pd, td, nd) = (p as f64, t as f64, n as f64);
    let lo = EPS as f64;
    let hi = (1.0f32 - EPS) as f64;
    let zone = is_prob(o) && (pd < 2.0 * lo || pd > 1.0 - 2.0 * lo);
    let pc = pd.clamp(lo, hi);
    let sign = if pd > td { 1.0 } else if pd < td { -1.0 } else { 0.0 };
    match o {
        Obj::AE => ((td - pd).abs(), sign, false),
        Obj::MAE => ((td - pd).abs() / nd, sign, false),
        Obj::MSE => ((td - pd) * (td - pd) / nd, -2.0 * (td - pd) / nd, false),
        Obj::RMSE => ((td - pd) * (td - pd) / nd, sign / nd, false), // term before the square root
        Obj::CE => (-(td * pc.ln()), pd - td, zone),
        Obj::BCE => (-(td * pc.ln() + (1.0 - td) * (1.0 - pc).ln()), (pc - td) / (pc * (1.0 - pc)), zone),
        Obj::KL => (if td == 0.0 { 0.0 } else { td * (td / pc).ln() }, -td / pc, zone),
    }
}

pub fn ref_loss(o: Obj, p: &[f32], t: &[f32]) -> (f64, f64, Vec<f64>, bool) {
    let n = p.len();
    let mut sum = 0.0;
    let mut mag = 0.0;
    let mut grads = Vec::with_capacity(n);
    let mut zone = false;
    for i in 0..n {
        let (term, g, z) = ref_elem(o, p[i], t[i], n);
        sum += term;
        mag += term.abs();
        grads.push(g);
        zone |= z;
    }
    if o == Obj::RMSE {
        sum = sum.sqrt();
        mag = mag.sqrt();
    }
    (sum, mag, grads, zone)
}

/// One element's loss term as a function of an f64 prediction (for numerical differentiation;
/// the separable objectives' reported loss was just shown equal to the sum of these terms).
fn ref_term_f64(o: Obj, pd: f64, t: f32, n: usize) -> f64 {
    let td = t as f64;
    let n = n as f64;
    match o {
        Obj::AE => (td - pd).abs(),
        Obj::MAE => (td - pd).abs() / n,
        Obj::MSE | Obj::RMSE => (td - pd) * (td - pd) / n,
        Obj::CE => -(td * pd.ln()),
        Obj::BCE => -(td * pd.ln() + (1.0 - td) * (1.0 - pd).ln()),
        Obj::KL => {
            if td == 0.0 {
                0.0
            } else {
                td * (td / pd).ln()
            }
        }
    }
}

#[derive(Debug, Clone)]
struct Case {
    obj: Obj,
    dims: Vec<usize>,
    clamp: Option<(f32, f32)>,
    class: u8,
    seed: u32,
}

fn decode(tape: &[u32]) -> Case {
    let mut t = Tape::new(tape);
    let obj = OBJS[t.pick(7)];
    let rank3 = t.bool();
    // mostly small; one case in six is large (vectors up to 130 elements, tensors up to 4 x 6 x 6)
    let large = t.chance(1, 6);
    let dims = match (rank3, large) {
        (true, false) => vec![t.usize(1, 3), t.usize(1, 3), t.usize(1, 3)],
        (true, true) => vec![t.usize(1, 4), t.usize(2, 6), t.usize(2, 6)],
        (false, false) => vec![t.usize(1, 16)],
        (false, true) => vec![t.usize(17, 130)],
    };
    let clamp = match t.pick(9) {
        0 => None,
        1 => Some((-1.0, 1.0)),
        2 => {
            let v = t.f32_in(-2.0, 2.0);
            Some((v, v))
        }
        3 => {
            let lo = t.f32_in(0.05, 3.0);
            Some((lo, lo + t.f32_in(0.0, 5.0)))
        } // excludes 0, positive
        4 => {
            let hi = -t.f32_in(0.05, 3.0);
            Some((hi - t.f32_in(0.0, 5.0), hi))
        } // excludes 0, negative
        5 => {
            let a = t.f32_in(-1e3, 0.0);
            Some((a, a + t.f32_in(0.0, 2e3)))
        }
        6 => Some((f32::NEG_INFINITY, t.f32_in(-1.0, 1.0))), // one-sided: only an upper bound
        7 => Some((t.f32_in(-1.0, 1.0), f32::INFINITY)),     // one-sided: only a lower bound
        _ => Some((f32::NEG_INFINITY, f32::INFINITY)),
    };
    let class = t.pick(7) as u8;
    let seed = t.raw();
    Case { obj, dims, clamp, class, seed }
}

fn inputs(case: &Case) -> (Vec<f32>, Vec<f32>) {
    let n: usize = case.dims.iter().product();
    let mut m = Mix::new(case.seed as u64 ^ 0xC06);
    let mut p = Vec::with_capacity(n);
    let mut t = Vec::with_capacity(n);
    for _ in 0..n {
        if is_prob(case.obj) {
            let special = |m: &mut Mix| -> f32 {
                match m.below(10) {
                    0 => 0.0,
                    1 => 1.0,
                    2 => EPS,
                    3 => 1.0 - EPS,
                    4 => f32::from_bits(EPS.to_bits() + m.below(5) as u32 - 2),
                    5 => f32::from_bits(m.below(1 << 20) as u32 + 1), // denormal
                    6 => 1e-7 * (1 + m.below(30)) as f32,
                    7 => 1.0 - 1e-7 * (1 + m.below(30)) as f32,
                    _ => m.f32_in(0.0, 1.0),
                }
            };
            let (pv, tv) = match case.class {
                0 => (m.f32_in(0.01, 0.99), m.f32_in(0.0, 1.0)),                         // interior
                1 => (m.f32_in(0.01, 0.99), if m.below(2) == 0 { 0.0 } else { 1.0 }),    // one-hot style targets
                2 => (special(&mut m), special(&mut m)),                                 // boundaries everywhere
                3 => {
                    let v = m.f32_in(0.001, 0.999);
                    (v, v)
                } // p == t
                _ => (if m.below(4) == 0 { special(&mut m) } else { m.f32_in(0.001, 0.999) }, if m.below(4) == 0 { special(&mut m) } else { m.f32_in(0.0, 1.0) }),
            };
            p.push(pv);
            t.push(tv);
        } else {
            let (pv, tv) = match case.class {
                0 => (m.f32_in(-2.0, 2.0), m.f32_in(-2.0, 2.0)),
                1 => (m.f32_in(-1e4, 1e4), m.f32_in(-1e4, 1e4)),
                2 => {
                    let v = m.f32_in(-100.0, 100.0);
                    if m.below(2) == 0 {
                        (v, v)
                    } else {
                        (v, f32::from_bits(v.to_bits() ^ 1))
                    }
                } // equal or 1 ulp apart
                3 => ((m.below(17) as f32 - 8.0) / 4.0, (m.below(17) as f32 - 8.0) / 4.0), // dyadic, often equal
                5 => {
                    // zeros of either sign, subnormals and their negatives: numerically equal pairs with different bits
                    let z = |m: &mut Mix| -> f32 {
                        match m.below(6) {
                            0 => 0.0,
                            1 => -0.0,
                            2 => f32::from_bits(1 + m.below(4) as u32),
                            3 => -f32::from_bits(1 + m.below(4) as u32),
                            4 => 0.25 * (m.below(5) as f32 - 2.0),
                            _ => 0.0 * (m.below(3) as f32 - 1.0), // 0 * -1 = -0
                        }
                    };
                    (z(&mut m), z(&mut m))
                }
                6 => {
                    // huge but finite: squares and sums of squares approach the single-precision range
                    // (|p - t| <= 1.8e19, so every exact term and the exact mean are representable)
                    let e = 10f32.powi(15 + m.below(5) as i32);
                    ((m.f32_in(-0.9, 0.9) * e).clamp(-9e18, 9e18), (m.f32_in(-0.9, 0.9) * e).clamp(-9e18, 9e18))
                }
                _ => (m.f32_in(-1.0, 1.0) * 10f32.powi(m.below(9) as i32 - 4), m.f32_in(-1.0, 1.0) * 10f32.powi(m.below(9) as i32 - 4)),
            };
            p.push(pv);
            t.push(tv);
        }
    }
    (p, t)
}

fn check(case: &Case, ev: &mut CaseEv) -> CheckResult {
    let n: usize = case.dims.iter().product();
    let (p, t) = inputs(case);
    let o = case.obj;
    ev.class(format!("{:?}", o));
    ev.class(format!("rank{}", case.dims.len()));
    ev.class(if case.clamp.is_some() { "clamp" } else { "noclamp" });
    ev.units = n as u64;
    let boundary = (0..n).any(|i| p[i] == t[i] || (is_prob(o) && (p[i] <= EPS || p[i] >= 1.0 - EPS || t[i] == 0.0 || t[i] == 1.0)));
    let kl_zero_target = o == Obj::KL && t.iter().any(|v| *v == 0.0);

    let f_plain = make(o, None);
    if case.seed & 3 == 0 {
        // the same objective instance is first used on a tensor of another size (no state may carry over)
        let m = 1 + (case.seed as usize >> 4) % 9;
        let wp: Vec<f32> = (0..m).map(|i| 0.3 + 0.05 * i as f32).collect();
        let wt: Vec<f32> = (0..m).map(|i| 0.6 - 0.03 * i as f32).collect();
        let _ = catch(|| f_plain.loss(&Tensor::single(wp), &Tensor::single(wt)));
        ev.class("objective instance reused across sizes");
    }
    let pt = tens::build(&case.dims, &p);
    let tt = tens::build(&case.dims, &t);
    let (loss, grad) = catch(|| f_plain.loss(&pt, &tt)).map_err(|e| Fail::new(format!("{:?}.loss panicked: {e}", o)))?;
    ensure!(grad.shape == pt.shape && tens::consistent(&grad), "{:?}: gradient shape {:?} != prediction shape {:?}", o, grad.shape, pt.shape);
    let g = tens::flat(&grad);
    ensure!(g.len() == n, "{:?}: gradient has {} elements, prediction {}", o, g.len(), n);

    let (rl, mag, rg, zone) = ref_loss(o, &p, &t);

    // RMSE is documented as sqrt(sum(..) / n): where the sum of squares itself leaves the single-precision
    // range the documented formula has no finite single-precision value (RMSE is not in the finiteness clause)
    let rmse_sum_overflows = o == Obj::RMSE && (0..n).map(|i| (t[i] as f64 - p[i] as f64).powi(2)).sum::<f64>() > 0.9 * f32::MAX as f64;
    if rmse_sum_overflows {
        ev.class("RMSE: sum of squares beyond the single-precision range (loss not compared)");
    }
    // finiteness (statement: AE, MSE, BCE, KL for all finite in-domain inputs incl. 0 and 1)
    if !loss.is_finite() && !rmse_sum_overflows {
        let msg = format!("{:?}: loss is {:?} for finite in-domain inputs (p = {:?}, t = {:?})", o, loss, &p[..n.min(6)], &t[..n.min(6)]);
        if kl_zero_target {
            return Err(Fail::known(msg, "kl_zero_target"));
        }
        fail!("{}", msg);
    }
    for (i, gi) in g.iter().enumerate() {
        if !gi.is_finite() {
            let msg = format!("{:?}: gradient component {} is {:?} (p = {:e}, t = {:e})", o, i, gi, p[i], t[i]);
            if o == Obj::RMSE && p[i] != t[i] && ((p[i] as f64 - t[i] as f64).abs() < 1e-22) {
                return Err(Fail::known(msg, "rmse_gradient_nonfinite"));
            }
            fail!("{}", msg);
        }
    }

    // loss against the documented formula (outside the clamping zone of the probabilities)
    if !zone && !rmse_sum_overflows {
        let tol = 2e-5 * mag + 1e-6 * (n as f64) * if is_prob(o) { 1.0 } else { 1e-3 } + 1e-30;
        let err = (loss as f64 - rl).abs();
        ev.ratio("loss", err / tol);
        ensure!(err <= tol, "{:?} rank {}: loss {:e}, documented formula gives {:e} (n = {}, err {:e} > tol {:e})", o, case.dims.len(), loss, rl, n, err, tol);
    } else {
        ev.class("eps-zone(loss only finite)");
    }
    // gradient against the documented formula
    let mut worst = 0.0f64;
    let mut zone_checked = 0;
    for i in 0..n {
        let (_, _, z) = ref_elem(o, p[i], t[i], n);
        if z && o != Obj::CE {
            // (cross-entropy's documented gradient, predicted - actual, involves no clamping.) Inside the band where
            // the library bounds the prediction to [eps, 1 - eps] the statement admits three readings of "the
            // documented formula / the derivative of the reported loss": the formula at the bounded prediction
            // (what the library does), the formula at the raw prediction where that is finite, and - strictly
            // outside [eps, 1 - eps], where the reported loss does not depend on the prediction - zero. A
            // component that is none of the three is wrong under every reading.
            let (pd, td) = (p[i] as f64, t[i] as f64);
            let raw = if o == Obj::BCE { (pd - td) / (pd * (1.0 - pd)) } else { -td / pd };
            let near = |r: f64| r.is_finite() && (g[i] as f64 - r).abs() <= 2e-5 * r.abs() + 1e-7;
            let outside = pd < EPS as f64 || pd > (1.0f32 - EPS) as f64;
            ensure!(
                near(rg[i]) || near(raw) || (outside && g[i] == 0.0),
                "{:?} rank {}: gradient[{}] = {:e} at the saturated prediction p = {:e} (t = {:e}) is neither the documented formula at the eps-bounded prediction ({:e}), nor at the raw prediction ({:e}), nor the derivative 0 of the (there constant) reported loss",
                o, case.dims.len(), i, g[i], p[i], t[i], rg[i], raw
            );
            zone_checked += 1;
            continue;
        }
        let tol = 2e-5 * rg[i].abs() + 1e-7 * if is_prob(o) { 1.0 } else { (p[i].abs().max(t[i].abs()) as f64).max(1e-3) / n as f64 };
        let err = (g[i] as f64 - rg[i]).abs();
        worst = worst.max(err / tol);
        ensure!(err <= tol, "{:?} rank {}: gradient[{}] = {:e}, documented formula gives {:e} (p = {:e}, t = {:e}, n = {})", o, case.dims.len(), i, g[i], rg[i], p[i], t[i], n);
    }
    ev.ratio("gradient", worst);
    if zone_checked > 0 {
        ev.class("gradient checked at saturated predictions (three admissible readings)");
    }

    // gradient is the derivative of the reported loss (AE, MSE, BCE, KL), interior points only
    if matches!(o, Obj::AE | Obj::MSE | Obj::BCE | Obj::KL) {
        let mut wd = 0.0f64;
        let mut tested = 0;
        for i in 0..n {
            let interior = if is_prob(o) { p[i] > 1e-3 && p[i] < 1.0 - 1e-3 } else { (p[i] - t[i]).abs() > 1e-3 * p[i].abs().max(t[i].abs()).max(1e-30) };
            if !interior {
                continue;
            }
            let pd = p[i] as f64;
            let h = 1e-5 * if is_prob(o) { pd.min(1.0 - pd) } else { (pd - t[i] as f64).abs() };
            let d = (ref_term_f64(o, pd + h, t[i], n) - ref_term_f64(o, pd - h, t[i], n)) / (2.0 * h);
            let tol = 1e-4 * d.abs() + 1e-6;
            let err = (g[i] as f64 - d).abs();
            wd = wd.max(err / tol);
            tested += 1;
            ensure!(err <= tol, "{:?}: gradient[{}] = {:e} is not the derivative of the loss ({:e}) at p = {:e}, t = {:e}", o, i, g[i], d, p[i], t[i]);
        }
        if tested > 0 {
            ev.class("derivative-tested");
        }
        ev.ratio("derivative", wd);
    }

    // rank independence: the same numbers as a vector
    if case.dims.len() == 3 {
        let (l1, g1) = catch(|| f_plain.loss(&Tensor::single(p.clone()), &Tensor::single(t.clone()))).map_err(|e| Fail::new(format!("{:?}.loss (vector) panicked: {e}", o)))?;
        ensure!(l1.to_bits() == loss.to_bits(), "{:?}: loss differs between the 3-D arrangement ({:e}) and the flat one ({:e})", o, loss, l1);
        if let Some(i) = tens::first_bit_diff(&tens::flat(&g1), &g) {
            fail!("{:?}: gradient[{}] differs between 3-D ({:e}) and flat ({:e}) arrangement", o, i, g[i], tens::flat(&g1)[i]);
        }
    }

    // clamp: clamped run == clamp(unclamped run), bitwise
    let mut active = (false, false);
    if let Some((lo, hi)) = case.clamp {
        let f_c = make(o, Some((lo, hi)));
        let (lc, gc) = catch(|| f_c.loss(&pt, &tt)).map_err(|e| Fail::new(format!("{:?}.loss with clamp panicked: {e}", o)))?;
        ensure!(lc.to_bits() == loss.to_bits(), "{:?}: configuring a gradient clamp changed the loss ({:e} -> {:e})", o, loss, lc);
        ensure!(gc.shape == pt.shape, "{:?}: clamped gradient shape {:?}", o, gc.shape);
        let gcf = tens::flat(&gc);
        for i in 0..n {
            let want = if g[i] < lo { lo } else if g[i] > hi { hi } else { g[i] };
            if want.to_bits() != g[i].to_bits() {
                active.0 = true;
            } else {
                active.1 = true;
            }
            ensure!(gcf[i].to_bits() == want.to_bits(), "{:?} clamp ({:e},{:e}): component {} is {:e}, unclamped {:e} limited to the interval is {:e}", o, lo, hi, i, gcf[i], g[i], want);
        }
        if active.0 {
            ev.class("clamp-active");
        }
    }
    ev.nontrivial = n >= 2 && (boundary || (active.0 && active.1) || case.dims.len() == 3);
    ev.set_sig(&(o, &case.dims, case.clamp.map(|c| (c.0.to_bits(), c.1.to_bits())), case.class, boundary, case.seed % 64));
    Ok(())
}

pub struct C06;

impl Prop for C06 {
    fn id(&self) -> &'static str {
        "C06"
    }
    fn tape_len(&self, _t: Tier) -> usize {
        16
    }
    fn cases(&self, t: Tier) -> usize {
        t.pick(1_000_000, 100_000_000)
    }
    fn rule(&self) -> String {
        "tape-decoded (objective of 7, clamp in {none, [-1,1], lo=hi, positive interval excluding 0, negative interval excluding 0, wide, (-inf, x], [x, +inf), (-inf, +inf)}, rank: vector 1..16 (1/6: 17..130) or c x h x w <= 3x3x3 (1/6: up to 4x6x6), content class: interior / one-hot targets / boundaries (exact 0, 1, eps, 1-eps, eps +- 2 ulp, denormals, 1e-7 multiples) / p == t / mixed for the probability objectives; O(1), |v| <= 1e4, equal-or-1-ulp-apart, dyadic, mixed magnitudes, zeros of either sign and subnormals (numerically equal pairs with different bits), magnitudes 1e15 ... 9e18 (squares near the top of the range) for the regression objectives). Oracle: documented formulas in f64 (for binary cross-entropy and KL-divergence at predictions closer than 2e-6 to 0 or 1: the gradient must be the formula at the eps-bounded prediction, or at the raw prediction where finite, or - outside [eps, 1 - eps] - the derivative 0 of the there constant reported loss; anything else is wrong under every reading), finiteness, numerical derivative of the reference loss (AE, MSE, BCE, KL), 3-D == flat bitwise, clamped == clamp(unclamped) bitwise. Non-trivial: >= 2 elements and (a boundary/equal element, or a clamp active on some and inactive on other components, or rank 3). Distinct = (objective, shape, clamp bits, content class, boundary flag, seed mod 64).".into()
    }
    fn assumptions(&self) -> Vec<String> {
        vec![
            "probability objectives clamp predictions to [1e-6, 1-1e-6] (undocumented but required for the stated finiteness); within 2e-6 of 0 or 1 only finiteness is required, elsewhere the documented formula".into(),
            "RMSE gradient is read as sign(p-t)/n and MAE gradient as sign(p-t) (their doc formulas); neither is required to be the loss derivative".into(),
        ]
    }
    fn run_case(&self, tape: &[u32], ev: &mut CaseEv) -> CheckResult {
        check(&decode(tape), ev)
    }
    fn describe(&self, tape: &[u32]) -> Value {
        let c = decode(tape);
        let (p, t) = inputs(&c);
        json!({"case": format!("{:?}", c), "prediction": p, "target": t})
    }
}

pub fn run(eng: &Engine, replay_path: Option<&str>) -> i32 {
    let p = C06;
    if let Some(path) = replay_path {
        return replay(&p, eng, path);
    }
    standard_run(&p, eng)
}
