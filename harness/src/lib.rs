//! nverif: property checks for the `neurons` crate (see /verif/DESIGN.md).

pub mod engine;
pub mod fcmp;
pub mod net;
pub mod refmodel;
pub mod tape;
pub mod tens;
pub mod c01;
pub mod c02;
pub mod c03;
pub mod c04;
pub mod c05;
pub mod c06;
pub mod c07;
pub mod c08;
pub mod c09;
pub mod c10;
pub mod c11;
pub mod c12;
pub mod c13;
pub mod c14;
pub mod c15;
pub mod c16;
pub mod c17;
pub mod c18;

use engine::{CaseEv, Engine, Prop, Tier};

/// Run one property (or replay one file); returns the process exit code.
pub fn run_property(id: &str, eng: &Engine, replay: Option<&str>) -> i32 {
    match id {
        "C01" => c01::run(eng, replay),
        "C02" => c02::run(eng, replay),
        "C03" => c03::run(eng, replay),
        "C04" => c04::run(eng, replay),
        "C05" => c05::run(eng, replay),
        "C06" => c06::run(eng, replay),
        "C07" => c07::run(eng, replay),
        "C08" => c08::run(eng, replay),
        "C09" => c09::run(eng, replay),
        "C10" => c10::run(eng, replay),
        "C11" => c11::run(eng, replay),
        "C12" => c12::run(eng, replay),
        "C13" => c13::run(eng, replay),
        "C14" => c14::run(eng, replay),
        "C15" => c15::run(eng, replay),
        "C16" => c16::run(eng, replay),
        "C17" => c17::run(eng, replay),
        "C18" => c18::run(eng, replay),
        _ => {
            eprintln!("unknown property {}", id);
            2
        }
    }
}

/// The tape-decoded case check of a property, without the engine (used by the libFuzzer target).
pub fn check_tape(id: &str, tape: &[u32]) -> Result<(), engine::Fail> {
    let mut ev = CaseEv::default();
    let t = Tier::Quick;
    match id {
        "C01" => c01::C01(t).run_case(tape, &mut ev),
        "C02" => c02::C02(t).run_case(tape, &mut ev),
        "C03" => c03::C03(t).run_case(tape, &mut ev),
        "C04" => c04::C04.run_case(tape, &mut ev),
        "C06" => c06::C06.run_case(tape, &mut ev),
        "C07" => c07::C07.run_case(tape, &mut ev),
        "C08" => c08::C08(t).run_case(tape, &mut ev),
        "C09" => c09::C09.run_case(tape, &mut ev),
        "C10" => c10::C10.run_case(tape, &mut ev),
        "C11" => c11::C11.run_case(tape, &mut ev),
        "C12" => c12::C12.run_case(tape, &mut ev),
        "C13" => c13::C13(t).run_case(tape, &mut ev),
        "C14" => c14::C14(t).run_case(tape, &mut ev),
        "C15" => c15::C15.run_case(tape, &mut ev),
        "C16" => c16::C16(t).run_case(tape, &mut ev),
        "C17" => c17::C17.run_case(tape, &mut ev),
        "C18" => c18::C18.run_case(tape, &mut ev),
        _ => panic!("property {} has no tape check for fuzzing", id),
    }
}

/// libFuzzer entry: bytes are read as a little-endian u32 tape and fed to the same decode + check
/// pair that proptest drives. The property comes from the environment variable NVERIF_FUZZ_PROP.
/// A violation is reported by writing the message to stderr and aborting (so that libFuzzer saves
/// the input); expected library panics are caught inside the checks.
pub fn fuzz_entry(data: &[u8]) {
    use std::sync::OnceLock;
    static PROP: OnceLock<String> = OnceLock::new();
    static FINDINGS: OnceLock<engine::Findings> = OnceLock::new();
    let prop = PROP.get_or_init(|| {
        // libfuzzer-sys installs a panic hook that aborts the process; the checks rely on
        // catch_unwind for the library's loud refusals, so replace it with a silent hook.
        std::panic::set_hook(Box::new(|_| {}));
        std::env::var("NVERIF_FUZZ_PROP").unwrap_or_else(|_| "C15".to_string())
    });
    let findings = FINDINGS.get_or_init(|| engine::Findings::load(&std::env::var("NVERIF_VERIF_DIR").unwrap_or_else(|_| "/verif".into())));
    let tape: Vec<u32> = data.chunks(4).map(|c| {
        let mut b = [0u8; 4];
        b[..c.len()].copy_from_slice(c);
        u32::from_le_bytes(b)
    }).collect();
    let r = std::panic::catch_unwind(std::panic::AssertUnwindSafe(|| check_tape(prop, &tape)));
    let msg = match r {
        Ok(Ok(())) => return,
        Ok(Err(f)) => {
            if let Some(sig) = f.finding {
                if findings.is_known(prop, sig) {
                    return;
                }
            }
            f.msg
        }
        Err(p) => format!("uncaught panic: {}", engine::panic_message(p)),
    };
    eprintln!("NVERIF-FUZZ-VIOLATION property={} {}", prop, msg);
    std::process::abort();
}
