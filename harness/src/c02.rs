//! C02 — each layer's forward pass computes its defining operator.

use crate::engine::*;
use crate::fcmp::EPS32;
use crate::net::*;
use crate::refmodel::ActK;
use crate::tape::{payload, Tape};
use crate::tens;
use crate::{ensure, fail};
use neurons::tensor::{Shape, Tensor};
use serde_json::{json, Value};

#[derive(Debug, Clone)]
struct Case {
    kind: u8, // 0 single layer, 1 sequence
    spec: NetSpec,
    wseed: u32,
    wmode: u32,
    xseed: u32,
    xmode: u32,
    xscale: f32,
    /// sequences only: compare after a short, early-stopped training run with dropout layers
    trained: bool,
}

fn decode(tape: &[u32], tier: Tier) -> Case {
    let mut t = Tape::new(tape);
    let kind = if t.chance(1, 4) { 1 } else { 0 };
    let big = tier == Tier::Thorough;
    let spec = if kind == 0 {
        let o = GenOpts {
            max_hw: if big { 12 } else { 8 },
            max_kernel: if big { 5 } else { 3 },
            max_stride: if big { 4 } else { 3 },
            max_dilation: if big { 3 } else { 2 },
            allow_feedback: false,
            acts: &[ActK::Linear, ActK::Tanh, ActK::Sigmoid, ActK::ReLU, ActK::Leaky],
            ..GenOpts::default()
        };
        // a single layer of a chosen kind on a chosen input
        let which = t.pick(4);
        if which == 0 {
            // one dense case in six is wide (60..300 inputs): blocked dot products must not drop a tail
            let input = if t.chance(1, 6) { vec![t.usize(60, 300)] } else { vec![t.usize(1, 12)] };
            let act = [ActK::Linear, ActK::Tanh, ActK::Sigmoid, ActK::ReLU, ActK::Leaky, ActK::Softmax][t.pick(6)];
            NetSpec { input, layers: vec![LayerSpec::Dense { out: t.usize(1, 10), act, bias: t.bool(), dropout: None }] }
        } else {
            // one spatial case in 40 is large (13-32 pixels a side, kernels up to 7, pooling windows up to the whole
            // map, i.e. up to 1024 elements): index types and blocking constants of the inner loops
            let large = t.chance(1, 40);
            let o = if large { GenOpts { max_hw: 32, max_kernel: 7, max_c: 2, ..o } } else { o };
            let input = if large { vec![t.usize(1, 2), t.usize(13, 32), t.usize(13, 32)] } else { vec![t.usize(1, o.max_c), t.usize(1, o.max_hw), t.usize(1, o.max_hw)] };
            let (h, w) = (input[1], input[2]);
            let l = match which {
                1 => {
                    let mut cfg = gen_conv(&mut t, h, w, &o);
                    if t.chance(1, 6) {
                        cfg.filters = t.usize(12, 24); // many filters (parallel-per-filter paths)
                    }
                    LayerSpec::Conv { cfg, act: gen_act(&mut t, &o), dropout: None }
                }
                2 => LayerSpec::Deconv { cfg: gen_deconv(&mut t, h, w, &o), act: gen_act(&mut t, &o), dropout: None },
                _ => {
                    let kh = t.usize(1, if large { h } else { h.min(4) });
                    let kw = t.usize(1, if large { w } else { w.min(4) });
                    LayerSpec::Pool { kernel: (kh, kw), stride: (t.usize(1, kh + 1), t.usize(1, kw + 1)) }
                }
            };
            NetSpec { input, layers: vec![l] }
        }
    } else {
        let o = GenOpts { max_layers: 5, max_hw: 7, allow_feedback: true, ..GenOpts::default() };
        let mut s = gen_net(&mut t, &o);
        if s.layers.len() < 2 {
            let cur = final_dims(&s);
            let l = gen_layer(&mut t, &cur, false, &o, false);
            s.layers.push(l);
        }
        s
    };
    Case { kind, spec, wseed: t.raw(), wmode: t.pick(4) as u32, xseed: t.raw(), xmode: t.pick(4) as u32, xscale: [1.0, 1.0, 0.01, 30.0, 300.0, 1e-9, 1e-20][t.pick(7)], trained: t.chance(1, 5) }
}

fn conv_nondefault(l: &LayerSpec) -> bool {
    match l {
        LayerSpec::Conv { cfg, .. } | LayerSpec::Deconv { cfg, .. } => cfg.stride != (1, 1) || cfg.dilation != (1, 1) || cfg.padding != (0, 0),
        LayerSpec::Pool { kernel, stride } => stride != kernel,
        _ => false,
    }
}

fn check_single(case: &Case, ev: &mut CaseEv) -> CheckResult {
    let spec = &case.spec;
    let l = &spec.layers[0];
    ev.class(format!("single:{}", l.kind()));
    if spec.input.len() == 3 && spec.input[1] >= 13 && spec.input[2] >= 13 && matches!(l, LayerSpec::Pool { .. } | LayerSpec::Conv { .. } | LayerSpec::Deconv { .. }) {
        ev.class("single: large map (13-32 a side)");
        if let LayerSpec::Pool { kernel, .. } = l {
            if kernel.0 * kernel.1 > 256 {
                ev.class("single: pooling window > 256 elements");
            }
        }
    }
    let mut net = build(spec).map_err(|p| {
        let msg = format!("valid single-layer request {:?} on input {:?} rejected: {}", l, spec.input, p);
        Fail::new(msg)
    })?;
    let ps = seeded_params(&net, spec, case.wseed, case.wmode, 1.0);
    apply_params(&mut net, &ps);
    let rps = to_ref_params(&ps);
    let n_in = count(&spec.input);
    let xscale = if matches!(l, LayerSpec::Dense { .. }) { case.xscale } else { case.xscale.min(30.0) };
    let x = payload(case.xseed, case.xmode, n_in, xscale);
    let xd: Vec<f64> = x.iter().map(|v| *v as f64).collect();
    let p0: Vec<Vec<f64>> = rps.iter().map(|(_, d)| d.clone()).collect();
    let r = ref_layer(l, &p0, &xd, &spec.input);
    let model_dims = model_out(&spec.input, l).expect("generator produced a valid layer");
    ensure!(r.dims == model_dims, "harness: reference dims {:?} != model {:?}", r.dims, model_dims);

    let layer = &net.layers[0];
    let spatial = spec.input.len() == 3;
    let reps: Vec<(&str, Tensor)> = if spatial {
        vec![("c x h x w", tens::build(&spec.input, &x)), ("flat", Tensor::single(x.clone()))]
    } else {
        vec![("flat", Tensor::single(x.clone()))]
    };
    let deconv_underflow = match l {
        LayerSpec::Deconv { cfg, .. } => (spec.input[1] - 1) * cfg.stride.0 < 2 * cfg.padding.0 || (spec.input[2] - 1) * cfg.stride.1 < 2 * cfg.padding.1,
        _ => false,
    };
    let mut outs: Vec<(Vec<f32>, Vec<f32>)> = Vec::new();
    for (name, xt) in &reps {
        let is_flat_pool = *name == "flat" && spatial && matches!(l, LayerSpec::Pool { .. });
        let res = catch(|| layer_forward(layer, xt));
        let (pre, post) = match res {
            Ok(v) => v,
            Err(p) => {
                let msg = format!("{} forward panicked on a valid configuration {:?}, input {:?} given as {}: {}", l.kind(), l, spec.input, name, p);
                if deconv_underflow {
                    return Err(Fail::known(msg, "deconv_forward_size_underflow"));
                }
                if is_flat_pool {
                    return Err(Fail::known(msg, "maxpool_flat_input"));
                }
                fail!("{}", msg);
            }
        };
        // shapes
        let want_shape = if model_dims.len() == 1 { Shape::Single(model_dims[0]) } else { Shape::Triple(model_dims[0], model_dims[1], model_dims[2]) };
        ensure!(pre.shape == want_shape && tens::consistent(&pre), "{} ({}): pre-activation shape {:?}, standard formula gives {:?}", l.kind(), name, pre.shape, model_dims);
        ensure!(post.shape == want_shape && tens::consistent(&post), "{} ({}): output shape {:?}, standard formula gives {:?}", l.kind(), name, post.shape, model_dims);
        let (pf, qf) = (tens::flat(&pre), tens::flat(&post));
        // values against the reference operator
        let nterms = match l {
            LayerSpec::Dense { .. } => n_in + 1,
            LayerSpec::Conv { cfg, .. } | LayerSpec::Deconv { cfg, .. } => spec.input[0] * cfg.kernel.0 * cfg.kernel.1 * if matches!(l, LayerSpec::Deconv { .. }) { 4 } else { 1 },
            _ => 1,
        };
        let mut worst = 0.0f64;
        let refpost = &r.post;
        for i in 0..pf.len() {
            if let LayerSpec::Pool { .. } = l {
                let ok = pf[i] as f64 == r.pre[i] && qf[i] as f64 == r.pre[i];
                if !ok {
                    let msg = format!("maxpool ({}): output {} is {:e}, maximum of its window is {:e} (config {:?}, input {:?})", name, i, qf[i], r.pre[i], l, spec.input);
                    if is_flat_pool {
                        return Err(Fail::known(msg, "maxpool_flat_input"));
                    }
                    fail!("{}", msg);
                }
                continue;
            }
            let tol = 4.0 * (nterms as f64 + 1.0) * EPS32 * r.mag[i] + 1e-37;
            let err = (pf[i] as f64 - r.pre[i]).abs();
            worst = worst.max(err / tol);
            ensure!(err <= tol, "{} ({}): pre-activation {} is {:e}, defining operator gives {:e} (error {:e} > bound {:e}; config {:?}, input {:?})", l.kind(), name, i, pf[i], r.pre[i], err, tol, l, spec.input);
            let tol2 = tol + 2e-6 * refpost[i].abs() + 2e-7;
            let err2 = (qf[i] as f64 - refpost[i]).abs();
            ensure!(err2 <= tol2, "{} ({}): activated output {} is {:e}, activation of the defining operator gives {:e}", l.kind(), name, i, qf[i], refpost[i]);
        }
        ev.ratio("pre_vs_operator", worst);
        outs.push((pf, qf));
    }
    if outs.len() == 2 {
        if let Some(i) = tens::first_bit_diff(&outs[0].1, &outs[1].1) {
            fail!("{}: output {} differs between c x h x w input ({:e}) and flat input ({:e}); config {:?}, input {:?}", l.kind(), i, outs[0].1[i], outs[1].1[i], l, spec.input);
        }
        ev.class("both-representations");
    }
    let multi_kernel = match l {
        LayerSpec::Conv { cfg, .. } | LayerSpec::Deconv { cfg, .. } => cfg.kernel.0 > 1 || cfg.kernel.1 > 1,
        LayerSpec::Pool { kernel, .. } => kernel.0 > 1 || kernel.1 > 1,
        _ => false,
    };
    ev.nontrivial = multi_kernel || conv_nondefault(l) || (spatial && spec.input[0] >= 2) || spatial;
    if conv_nondefault(l) {
        ev.class("non-default stride/dilation/padding");
    }
    if spatial && spec.input[1] != spec.input[2] {
        ev.class("non-square input");
    }
    ev.set_sig(&(0u8, spec));
    Ok(())
}

fn check_sequence(case: &Case, ev: &mut CaseEv) -> CheckResult {
    let spec = &case.spec;
    ev.class("sequence");
    ev.class(format!("depth{}", spec.layers.len()));
    let has_fb = spec.layers.iter().any(|l| matches!(l, LayerSpec::Feedback { .. }));
    if has_fb {
        ev.class("sequence:feedback");
    }
    // In 1/5 of the sequences the comparison is made on a network that has been through a short,
    // early-stopped training run with dropout layers: its prediction must still be the composition
    // of the layers' defining operators at the trained weights.
    let spec_owned: NetSpec;
    let trained = case.trained && matches!(spec.layers.last(), Some(LayerSpec::Dense { .. })); // validate() needs a dense output layer
    let spec = if trained {
        let mut s2 = spec.clone();
        for (i, l) in s2.layers.iter_mut().enumerate() {
            if let LayerSpec::Dense { dropout, .. } | LayerSpec::Conv { dropout, .. } | LayerSpec::Deconv { dropout, .. } = l {
                if i % 2 == 0 {
                    *dropout = Some(500);
                }
            }
        }
        spec_owned = s2;
        &spec_owned
    } else {
        spec
    };
    // one untrained sequence in three: one plain layer is first added with another activation and then switched to the
    // one of the specification with Network::set_activation - the network must be the network of the specification
    let switch = if !trained && case.xseed % 3 == 0 {
        let plain: Vec<usize> = spec.layers.iter().enumerate().filter(|(_, l)| matches!(l, LayerSpec::Dense { .. } | LayerSpec::Conv { .. } | LayerSpec::Deconv { .. })).map(|(i, _)| i).collect();
        if plain.is_empty() { None } else { Some(plain[(case.xseed as usize / 3) % plain.len()]) }
    } else {
        None
    };
    let mut net = match switch {
        None => build(spec).map_err(|p| Fail::new(format!("valid layer sequence {:?} rejected: {}", spec, p)))?,
        Some(i) => {
            let mut other = spec.clone();
            let want = match &mut other.layers[i] {
                LayerSpec::Dense { act, .. } | LayerSpec::Conv { act, .. } | LayerSpec::Deconv { act, .. } => {
                    let want = *act;
                    let k = crate::refmodel::ELEMENTWISE.iter().position(|a| *a == want).unwrap_or(0);
                    *act = crate::refmodel::ELEMENTWISE[(k + 1 + (case.wseed as usize % 4)) % 5];
                    want
                }
                _ => unreachable!(),
            };
            let mut n = build(&other).map_err(|p| Fail::new(format!("valid layer sequence {:?} rejected: {}", other, p)))?;
            catch(std::panic::AssertUnwindSafe(|| n.set_activation(i, lib_act(want)))).map_err(|p| Fail::new(format!("set_activation({}, {:?}) panicked: {}", i, want, p)))?;
            ev.class("sequence:an activation set afterwards with set_activation");
            n
        }
    };
    let mut ps = seeded_params(&net, spec, case.wseed, case.wmode, 1.0);
    apply_params(&mut net, &ps);
    let n_in = count(&spec.input);
    if trained {
        ev.class("sequence:after early-stopped training with dropout");
        let od = final_dims(spec);
        let mk = |k: u32| (tens::build(&spec.input, &payload(case.xseed ^ k, 1, n_in, 1.0)), tens::build(&od, &payload(case.wseed ^ k, 1, count(&od), 1.0)));
        let (x1, y1) = mk(11);
        let (x2, y2) = mk(22);
        let (vx, vy) = mk(33);
        net.set_optimizer(neurons::optimizer::SGD::create(0.015625, None));
        let r = catch(std::panic::AssertUnwindSafe(|| net.learn(&vec![&x1, &x2], &vec![&y1, &y2], Some((&vec![&vx], &vec![&vy], 1)), 1, 4, None)));
        match r {
            Ok((tl, _, _)) => {
                if tl.len() < 4 {
                    ev.class("sequence:early stop fired");
                }
            }
            Err(p) => {
                if p.contains("Loss is NaN") {
                    ev.discard = Some("training diverged to NaN");
                    return Ok(());
                }
                // blocks with layers the library cannot train are outside this check
                ev.discard = Some("training panicked (not the subject of C02)");
                return Ok(());
            }
        }
        ps = collect_params(&net);
        if ps.iter().any(|(_, t)| tens::flat(t).iter().any(|v| !v.is_finite() || v.abs() > 1e3)) {
            ev.discard = Some("training blew the weights up (non-finite or > 1e3)");
            return Ok(());
        }
    }
    let x = payload(case.xseed, case.xmode, n_in, case.xscale.min(1.0));
    let xt = tens::build(&spec.input, &x);
    let fw = catch(|| net.forward(&xt));
    let (_pre, act, _, _) = match fw {
        Ok(v) => v,
        Err(p) => fail!("Network::forward panicked on a fitting layer sequence {:?}: {}", spec, p),
    };
    ensure!(act.len() == spec.layers.len() + 1, "forward returned {} activations for {} layers", act.len(), spec.layers.len());
    // composition of the library's own single-layer forwards
    let mut cur = xt.clone();
    for (i, l) in net.layers.iter().enumerate() {
        let (_, post) = catch(|| layer_forward(l, &cur)).map_err(|p| Fail::new(format!("layer {} forward panicked: {}", i, p)))?;
        if let Some(j) = tens::first_bit_diff(&tens::flat(&post), &tens::flat(&act[i + 1])) {
            fail!("Network::forward: output of layer {} ({}) differs from that layer applied to the previous output at element {} ({:e} vs {:e}); spec {:?}", i, spec.layers[i].kind(), j, tens::flat(&act[i + 1])[j], tens::flat(&post)[j], spec);
        }
        ensure!(post.shape == act[i + 1].shape, "Network::forward: shape of layer {} output {:?} vs composed {:?}", i, act[i + 1].shape, post.shape);
        cur = post;
    }
    let pred = catch(|| net.predict(&xt)).map_err(|p| Fail::new(format!("predict panicked: {p}")))?;
    ensure!(tens::first_bit_diff(&tens::flat(&pred), &tens::flat(&cur)).is_none() && pred.shape == cur.shape, "predict differs from the composition of the layers' outputs");
    // final output against the f64 reference network (loose: errors compound through the layers)
    let rps = to_ref_params(&ps);
    let xd: Vec<f64> = x.iter().map(|v| *v as f64).collect();
    let rf = ref_forward(spec, &rps, &xd, &[]);
    if rf.outs.iter().any(|o| o.iter().any(|v| !v.is_finite() || v.abs() > 1e15)) {
        // beyond the single-precision range the operators are not comparable
        ev.discard = Some("intermediate values beyond 1e15");
        return Ok(());
    }
    let out = tens::flat(&pred);
    let rout = rf.outs.last().unwrap();
    ensure!(out.len() == rout.len(), "prediction has {} elements, reference {}", out.len(), rout.len());
    // skip the comparison when an activation kink or pooling tie is within rounding distance
    if rf.kink > 1e-4 && rf.tie > 1e-4 {
        let scale = rout.iter().fold(1.0f64, |a, v| a.max(v.abs()));
        let mut worst = 0.0f64;
        for i in 0..out.len() {
            let tol = 2e-4 * scale;
            let err = (out[i] as f64 - rout[i]).abs();
            worst = worst.max(err / tol);
            ensure!(err <= tol, "prediction element {} is {:e}, composition of the defining operators gives {:e}; spec {:?}", i, out[i], rout[i], spec);
        }
        ev.ratio("sequence_vs_reference", worst);
    } else {
        ev.class("sequence:near-kink(reference comparison skipped)");
    }
    let flat_to_spatial = spec.layers.windows(2).any(|w| !w[0].is_spatial() && w[1].is_spatial());
    let spatial_to_flat = spec.layers.windows(2).any(|w| w[0].is_spatial() && !w[1].is_spatial());
    if flat_to_spatial {
        ev.class("sequence:flat->spatial");
    }
    if spatial_to_flat {
        ev.class("sequence:spatial->flat");
    }
    ev.nontrivial = true;
    ev.set_sig(&(1u8, spec));
    Ok(())
}

pub struct C02(pub Tier);

impl Prop for C02 {
    fn id(&self) -> &'static str {
        "C02"
    }
    fn tape_len(&self, _t: Tier) -> usize {
        96
    }
    fn cases(&self, t: Tier) -> usize {
        t.pick(300_000, 20_000_000)
    }
    fn rule(&self) -> String {
        "tape-decoded cases: (3/4) one layer of a chosen kind (dense incl. soft-max, convolution, deconvolution, max-pool) over the configuration lattice channels 1-3, height/width 1-8 (thorough 1-12) non-square, filters 1-3 (1/6 of the convolutions: 12-24), dense inputs 1-12 (1/6: 60-300), kernel 1-3 (5), stride 1-3 (4), padding 0-2, dilation 1-2 (3), constructed so that the effective kernel fits; one spatial case in 40 on maps of 13-32 pixels a side with kernels up to 7 and pooling windows up to the whole map (up to 1024 elements); distinct random taps and inputs at scales 1e-20/1e-9/0.01/1/30 (dense also 300); each spatial layer is fed the c x h x w tensor and its flattening. (1/4) sequences of 2-5 fitting layers incl. feedback blocks without skips and flat<->spatial transitions; one in five of them is compared after a short early-stopped learn() run with dropout layers (trained weights read back through the hooks), and one untrained sequence in three has one plain layer added with another activation and then switched to the specified one with Network::set_activation. Oracles: f64 defining operators with a forward-error bound 4(n+1)eps*sum|terms| (max-pool exact), bitwise equality of both input representations, bitwise equality of Network::forward/predict with the fold of the library's own single-layer forwards, final output vs f64 reference network (2e-4 relative to the output scale, skipped near kinks/ties). Non-trivial: spatial layer or sequence. Distinct = full specification.".into()
    }
    fn run_case(&self, tape: &[u32], ev: &mut CaseEv) -> CheckResult {
        let c = decode(tape, self.0);
        if c.kind == 0 {
            check_single(&c, ev)
        } else {
            check_sequence(&c, ev)
        }
    }
    fn describe(&self, tape: &[u32]) -> Value {
        let c = decode(tape, self.0);
        json!({"kind": if c.kind == 0 { "single layer" } else { "sequence" }, "spec": format!("{:?}", c.spec), "wmode": c.wmode, "xmode": c.xmode, "xscale": c.xscale})
    }
}

pub fn run(eng: &Engine, replay_path: Option<&str>) -> i32 {
    let p = C02(eng.tier);
    if let Some(path) = replay_path {
        return replay(&p, eng, path);
    }
    standard_run(&p, eng)
}
