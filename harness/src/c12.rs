//! C12 — validate and predict_batch are faithful aggregations of predict.

use crate::engine::*;
use crate::net::*;
use crate::refmodel::{self as rm, ActK, ObjK};
use crate::tape::{payload, Mix, Tape};
use crate::tens;
use crate::{ensure, fail};
use neurons::objective;
use neurons::tensor::Tensor;
use serde_json::{json, Value};

#[derive(Debug, Clone)]
struct Case {
    spec: NetSpec,
    obj: ObjK,
    tol: f32,
    n: usize,
    wseed: u32,
    dseed: u32,
    softmax: bool,
    /// activation the output layer is switched to with `set_activation` after construction (None = untouched)
    switch_to: Option<ActK>,
    /// number of skip connections to try to add between layers with equal input sizes (chains included)
    connects: usize,
    cseed: u32,
    /// Some((layers in a chain of equally wide dense layers, iterations, input skips)): a loop connection over part
    /// of the chain with a skip connection whose source lies inside the looped range
    looped: Option<(usize, usize, bool)>,
}

fn decode(tape: &[u32]) -> Case {
    let mut t = Tape::new(tape);
    let o = GenOpts { max_layers: 2, max_hw: 4, max_c: 2, allow_feedback: true, acts: &[ActK::Linear, ActK::Tanh, ActK::Sigmoid, ActK::Leaky], max_dense: 5, ..GenOpts::default() };
    let mut spec = gen_net(&mut t, &o);
    let softmax = t.bool();
    let obj = rm::OBJS[t.pick(7)];
    let prob = matches!(obj, ObjK::CE | ObjK::BCE | ObjK::KL);
    // one case in 25 has a wide output layer (17..130 components: arg-max / fraction rules over long vectors)
    let out = if t.chance(1, 25) { t.usize(17, 130) } else { t.usize(1, 5) };
    let act = if softmax { ActK::Softmax } else if prob { ActK::Sigmoid } else { [ActK::Linear, ActK::Tanh, ActK::Sigmoid][t.pick(3)] };
    spec.layers.push(LayerSpec::Dense { out: if softmax { out.max(2) } else { out }, act, bias: t.bool(), dropout: None });
    let tol = [0.0f32, 1e-6, 1e-3, 0.1, 1.0, 1e30][t.pick(6)];
    let n = match t.pick(3) {
        0 => [1usize, 2, 63, 64, 65, 127, 128, 129, 200][t.pick(9)],
        1 => t.usize(1, 20),
        _ => t.usize(21, 300),
    };
    // one case in four: the output activation is changed after construction, across the soft-max boundary or not
    let switch_to = if t.chance(1, 4) {
        Some(if prob { [ActK::Softmax, ActK::Sigmoid][t.pick(2)] } else { [ActK::Softmax, ActK::Linear, ActK::Tanh, ActK::Sigmoid][t.pick(4)] })
    } else {
        None
    };
    let (wseed, dseed, connects, cseed) = (t.raw(), t.raw(), if t.chance(1, 3) { t.usize(1, 3) } else { 0 }, t.raw());
    // (drawn last) one case in six: the layers before the output layer are a chain of 2-4 equally wide dense layers,
    // part of which a loop connection repeats
    let looped = if t.chance(1, 6) {
        let width = t.usize(1, 5);
        let nl = t.usize(2, 4);
        let out = spec.layers.pop().unwrap();
        spec.input = vec![width];
        spec.layers = (0..nl).map(|_| LayerSpec::Dense { out: width, act: [ActK::Linear, ActK::Tanh, ActK::Sigmoid, ActK::Leaky][t.pick(4)], bias: t.bool(), dropout: None }).collect();
        spec.layers.push(out);
        Some((nl, t.usize(1, 3), t.bool()))
    } else {
        None
    };
    Case { spec, obj, tol, n, wseed, dseed, softmax, switch_to, connects, cseed, looped }
}

fn check(case: &Case, ev: &mut CaseEv) -> CheckResult {
    let spec = &case.spec;
    ev.class(format!("objective:{:?}", case.obj));
    ev.class(if case.softmax { "softmax output" } else { "non-softmax output" });
    ev.class(format!("tol:{:e}", case.tol));
    ev.class(match case.n { 1..=63 => "N<64", 64 => "N=64", 65..=127 => "64<N<128", 128 => "N=128", _ => "N>128" });
    let mut net = build(spec).map_err(|p| Fail::new(format!("valid network rejected: {} ({:?})", p, spec)))?;
    if case.connects > 0 {
        // candidate pairs a < b whose inputs hold the same number of elements; prefer chains (b of one = a of the next)
        let mut counts = Vec::new();
        let mut cur = spec.input.clone();
        for l in &spec.layers {
            counts.push(count(&cur));
            cur = model_out(&cur, l).unwrap();
        }
        let mut pairs: Vec<(usize, usize)> = Vec::new();
        for a in 0..counts.len() {
            for b in a + 1..counts.len() {
                if counts[a] == counts[b] && !matches!(spec.layers[a], LayerSpec::Pool { .. }) {
                    pairs.push((a, b));
                }
            }
        }
        let mut added = 0;
        let mut mix = crate::tape::Mix::new(case.cseed as u64);
        for _ in 0..case.connects {
            if pairs.is_empty() {
                break;
            }
            let (a, b) = pairs[mix.below(pairs.len() as u64) as usize];
            if catch(std::panic::AssertUnwindSafe(|| net.connect(a, b))).is_ok() {
                added += 1;
            }
        }
        if added > 0 {
            ev.class(format!("{} skip connection(s)", added));
        }
    }
    if let Some((nl, k, ins)) = case.looped {
        let mut mix = crate::tape::Mix::new(case.cseed as u64 ^ 0x100b);
        let a = mix.below(nl as u64 - 1) as usize;
        let b = a + 1 + mix.below((nl - 1 - a) as u64) as usize;
        let (sacc, lacc) = (ACCS[mix.below(5) as usize], ACCS[mix.below(5) as usize]);
        catch(std::panic::AssertUnwindSafe(|| {
            net.set_accumulation(sacc.lib(), lacc.lib());
            net.loopback(b, a, k, std::sync::Arc::new(|x| 1.0 / x), ins);
        }))
        .map_err(|p| Fail::new(format!("valid loop connection {}..{} x{} rejected: {} ({:?})", a, b, k, p, spec)))?;
        ev.class("loop connection");
        // a skip connection whose source lies inside the looped range (after its first layer), target at or after it
        if mix.below(4) != 0 {
            let src = a + 1 + mix.below((b - a) as u64) as usize;
            let dst = src + mix.below((nl + 1 - src) as u64) as usize;
            if catch(std::panic::AssertUnwindSafe(|| net.connect(src, dst))).is_ok() {
                ev.class("loop connection with a skip connection sourced inside the looped range");
            }
        }
    }
    let mut ps = seeded_params(&net, spec, case.wseed, 1, 1.0);
    // one regression case in five: a linear output layer with weights of scale 1000, so that the outputs (and the targets
    // derived from them) are large against the small tolerances (1e-6 is then below half a unit in the last place)
    if case.wseed % 5 == 0 && !case.softmax && case.switch_to.is_none() && !matches!(case.obj, ObjK::CE | ObjK::BCE | ObjK::KL) && matches!(spec.layers.last(), Some(LayerSpec::Dense { act: ActK::Linear, .. })) {
        let last = spec.layers.len() - 1;
        for (r, t) in ps.iter_mut() {
            if r.layer == last {
                let d = tensor_dims(t);
                let v: Vec<f32> = tens::flat(t).iter().map(|x| x * 1000.0).collect();
                *t = tens::build(&d, &v);
            }
        }
        ev.class("outputs of magnitude 1e3 (tolerances below the spacing of the targets)");
    }
    apply_params(&mut net, &ps);
    net.set_objective(lib_obj(case.obj), None);
    let mut softmax_now = case.softmax;
    if let Some(act) = case.switch_to {
        let last = net.layers.len() - 1;
        catch(std::panic::AssertUnwindSafe(|| net.set_activation(last, lib_act(act)))).map_err(|p| Fail::new(format!("set_activation panicked: {p}")))?;
        softmax_now = act == ActK::Softmax;
        ev.class(if softmax_now != case.softmax { "output activation switched across the soft-max boundary" } else { "output activation switched" });
    }
    let objf = objective::Function::create(lib_obj(case.obj), None);
    let n_in = count(&spec.input);
    let n_out = count(&final_dims(spec));
    let prob = matches!(case.obj, ObjK::CE | ObjK::BCE | ObjK::KL);

    // data
    // input classes: independent O(1) inputs; a fine sweep (consecutive inputs a few units in the last place
    // apart in every component); independent inputs of magnitude 1e-6 (all closer than 1e-5 to each other)
    let xclass = (case.dseed >> 7) % 8;
    let xs: Vec<Tensor> = match xclass {
        0 => {
            let base = payload(case.dseed, 1, n_in, 1.0);
            ev.class("inputs: fine sweep");
            (0..case.n).map(|i| tens::build(&spec.input, &base.iter().enumerate().map(|(j, b)| b + 2.5e-7 * (i as f32) * if j % 2 == 0 { 1.0 } else { -1.0 }).collect::<Vec<f32>>())).collect()
        }
        1 => {
            ev.class("inputs: magnitude 1e-6");
            (0..case.n).map(|i| tens::build(&spec.input, &payload(case.dseed.wrapping_add(i as u32 * 7919), 1, n_in, 1e-6))).collect()
        }
        _ => (0..case.n).map(|i| tens::build(&spec.input, &payload(case.dseed.wrapping_add(i as u32 * 7919), 1, n_in, 1.0))).collect(),
    };
    let preds: Vec<Tensor> = {
        let r = catch(|| xs.iter().map(|x| net.predict(x)).collect::<Vec<Tensor>>());
        r.map_err(|p| Fail::new(format!("predict panicked: {p}")))?
    };
    // predict == last activation of forward
    for (i, x) in xs.iter().enumerate().take(8) {
        let (_, act, _, _) = net.forward(x);
        ensure!(tens::first_bit_diff(&tens::flat(act.last().unwrap()), &tens::flat(&preds[i])).is_none() && act.last().unwrap().shape == preds[i].shape, "predict differs from the final activation of forward (sample {})", i);
    }
    let mut m = Mix::new(case.dseed as u64 ^ 0xC12);
    // targets: components inside / outside / exactly at the tolerance; arg-max agreeing / disagreeing
    let ts: Vec<Tensor> = preds
        .iter()
        .map(|p| {
            let pf = tens::flat(p);
            let tv: Vec<f32> = if softmax_now {
                let am = pf.iter().enumerate().fold((0usize, f32::MIN), |a, (i, v)| if *v > a.1 { (i, *v) } else { a }).0;
                let hot = if m.below(2) == 0 { am } else { m.below(n_out as u64) as usize };
                if m.below(2) == 0 {
                    (0..n_out).map(|i| if i == hot { 1.0 } else { 0.0 }).collect()
                } else {
                    // soft target distribution with a unique peak at `hot` (the peak is often below 0.5)
                    let raw: Vec<f32> = (0..n_out).map(|_| 0.1 + 0.9 * m.unit() as f32).collect();
                    let top = raw.iter().cloned().fold(0.0f32, f32::max) + 0.05 + 0.3 * m.unit() as f32;
                    let raw: Vec<f32> = (0..n_out).map(|i| if i == hot { top } else { raw[i] }).collect();
                    let s: f32 = raw.iter().sum();
                    raw.iter().map(|v| v / s).collect()
                }
            } else {
                pf.iter()
                    .map(|v| {
                        let t = match m.below(4) {
                            0 => *v,                                   // exact hit
                            1 => *v + case.tol.min(1e3),               // at the tolerance (up to rounding)
                            2 => *v + 0.5 * case.tol.min(1e3),         // inside
                            _ => *v + 2.0 * case.tol.min(1e3) + 0.25,  // outside
                        };
                        if prob { t.clamp(0.0, 1.0) } else { t }
                    })
                    .collect()
            };
            tens::build(&tens::shape_dims(&p.shape), &tv)
        })
        .collect();

    let xr: Vec<&Tensor> = xs.iter().collect();
    let tr: Vec<&Tensor> = ts.iter().collect();

    // predict_batch == [predict(x) ...] in order, bitwise
    let pb = catch(|| net.predict_batch(&xr)).map_err(|p| Fail::new(format!("predict_batch panicked on {} inputs: {}", case.n, p)))?;
    ensure!(pb.len() == case.n, "predict_batch returned {} outputs for {} inputs", pb.len(), case.n);
    for i in 0..case.n {
        ensure!(pb[i].shape == preds[i].shape, "predict_batch output {} has shape {:?}, predict gives {:?}", i, pb[i].shape, preds[i].shape);
        if tens::first_bit_diff(&tens::flat(&pb[i]), &tens::flat(&preds[i])).is_some() {
            // is it another sample's prediction (ordering problem)?
            let other = (0..case.n).find(|j| tens::first_bit_diff(&tens::flat(&pb[i]), &tens::flat(&preds[*j])).is_none());
            fail!("predict_batch output {} of {} differs from predict of input {}{}", i, case.n, i, match other { Some(j) => format!(" (it equals predict of input {})", j), None => String::new() });
        }
    }

    // spatial inputs handed over as flat vectors (a representation the first convolution / deconvolution / max-pool
    // accepts): predict_batch must still return exactly predict of each input
    if spec.input.len() == 3 && !matches!(spec.layers[0], LayerSpec::Feedback { .. }) && case.connects == 0 && (case.dseed >> 5) % 3 == 0 {
        let flats: Vec<Tensor> = xs.iter().map(|x| Tensor::single(tens::flat(x))).collect();
        let fr: Vec<&Tensor> = flats.iter().collect();
        let single: Vec<Tensor> = catch(|| flats.iter().map(|x| net.predict(x)).collect::<Vec<Tensor>>()).map_err(|p| Fail::new(format!("predict panicked on a flat sample of a {:?} input: {}", spec.input, p)))?;
        let pbf = catch(|| net.predict_batch(&fr)).map_err(|p| Fail::new(format!("predict_batch panicked on {} flat samples of a {:?} input: {}", case.n, spec.input, p)))?;
        ensure!(pbf.len() == case.n, "predict_batch returned {} outputs for {} flat inputs", pbf.len(), case.n);
        for i in 0..case.n {
            ensure!(tens::first_bit_diff(&tens::flat(&pbf[i]), &tens::flat(&single[i])).is_none(), "predict_batch output {} of {} differs from predict of input {} when the {:?} samples are given as flat vectors", i, case.n, i, spec.input);
        }
        ev.class("spatial samples given flat");
    }
    // validate
    let (vl, va) = catch(|| net.validate(&xr, &tr, case.tol)).map_err(|p| Fail::new(format!("validate panicked on {} samples: {}", case.n, p)))?;
    // the rule applied by the harness to the first `m` samples: (loss sum, |loss| sum, accuracy interval, both outcomes present)
    let expected = |m: usize| -> Option<(f64, f64, f64, f64, (bool, bool))> {
    let mut loss_sum = 0.0f64;
    let mut loss_mag = 0.0f64;
    let mut acc_lo = 0.0f64;
    let mut acc_hi = 0.0f64;
    let mut mixed = (false, false);
    for i in 0..m {
        let (l, _) = objf.loss(&preds[i], &ts[i]);
        if !l.is_finite() {
            return None;
        }
        loss_sum += l as f64;
        loss_mag += (l as f64).abs();
        let (pf, tf) = (tens::flat(&preds[i]), tens::flat(&ts[i]));
        if softmax_now {
            let maxp = pf.iter().cloned().fold(f32::MIN, f32::max);
            let maxt = tf.iter().cloned().fold(f32::MIN, f32::max);
            let ap: Vec<usize> = (0..n_out).filter(|j| pf[*j] == maxp).collect();
            let at: Vec<usize> = (0..n_out).filter(|j| tf[*j] == maxt).collect();
            let can_agree = ap.iter().any(|j| at.contains(j));
            let must_agree = ap.len() == 1 && at.len() == 1 && ap[0] == at[0];
            acc_lo += if must_agree { 1.0 } else { 0.0 };
            acc_hi += if can_agree { 1.0 } else { 0.0 };
            if must_agree { mixed.0 = true } else if !can_agree { mixed.1 = true }
        } else {
            let mut lo = 0.0;
            let mut hi = 0.0;
            for j in 0..n_out {
                let d = (tf[j] as f64 - pf[j] as f64).abs();
                let tol = case.tol as f64;
                let edge = (d - tol).abs() <= 4e-7 * d.max(tol).max(1e-30) + 1e-45;
                if edge {
                    hi += 1.0;
                } else if d < tol {
                    lo += 1.0;
                    hi += 1.0;
                }
            }
            acc_lo += lo / n_out as f64;
            acc_hi += hi / n_out as f64;
            if lo > 0.0 { mixed.0 = true }
            if hi < n_out as f64 { mixed.1 = true }
        }
    }
    Some((loss_sum, loss_mag, acc_lo, acc_hi, mixed))
    };
    let Some((loss_sum, loss_mag, acc_lo, acc_hi, mixed)) = expected(case.n) else {
        ev.discard = Some("non-finite sample loss");
        return Ok(());
    };
    let nf = case.n as f64;
    let mean = loss_sum / nf;
    // sequential single-precision summation of N losses: error <= (N - 1) eps sum|l|
    let tol_l = 2.0 * (nf + 2.0) * crate::fcmp::EPS32 * (loss_mag / nf) + 1e-30;
    let err = (vl as f64 - mean).abs();
    ev.ratio("validate_loss", err / tol_l);
    ensure!(err <= tol_l, "validate loss {:e} over {} samples, mean of the per-sample objective of predict is {:e} (sum would be {:e})", vl, case.n, mean, loss_sum);
    let slack = 2e-6 * nf.sqrt().max(1.0) + 1e-7;
    ensure!(
        va as f64 >= acc_lo / nf - slack && va as f64 <= acc_hi / nf + slack,
        "validate accuracy {:e} over {} samples (tolerance {:e}, {} output): by the stated rule it lies in [{:e}, {:e}]",
        va, case.n, case.tol, if softmax_now { "soft-max" } else { "non-soft-max" }, acc_lo / nf, acc_hi / nf
    );
    // a second call on the same network object with fewer samples (nothing may be left over from the first call)
    if case.n >= 2 {
        let m = 1 + (case.dseed as usize >> 11) % (case.n - 1);
        let (xm, tm): (Vec<&Tensor>, Vec<&Tensor>) = (xr[..m].to_vec(), tr[..m].to_vec());
        let (vl2, va2) = catch(|| net.validate(&xm, &tm, case.tol)).map_err(|p| Fail::new(format!("second validate call ({} of {} samples) panicked: {}", m, case.n, p)))?;
        if let Some((ls, lm, alo, ahi, _)) = expected(m) {
            let mf = m as f64;
            let tol2 = 2.0 * (mf + 2.0) * crate::fcmp::EPS32 * (lm / mf) + 1e-30;
            ensure!(((vl2 as f64) - ls / mf).abs() <= tol2, "validate on {} samples, called after validate on {} samples of the same network, returned loss {:e}; the mean per-sample objective of predict over those {} samples is {:e}", m, case.n, vl2, m, ls / mf);
            let slack2 = 2e-6 * mf.sqrt().max(1.0) + 1e-7;
            ensure!(va2 as f64 >= alo / mf - slack2 && va2 as f64 <= ahi / mf + slack2, "validate on {} samples, called after validate on {} samples of the same network, returned accuracy {:e}; by the stated rule it lies in [{:e}, {:e}]", m, case.n, va2, alo / mf, ahi / mf);
            ev.class("second validate call with fewer samples");
        }
    }
    ev.nontrivial = case.n > 64 && case.n % 64 != 0 && mixed.0 && mixed.1;
    ev.set_sig(&(spec, case.obj, case.tol.to_bits(), case.n));
    ev.units = case.n as u64;
    Ok(())
}

pub struct C12;

impl Prop for C12 {
    fn id(&self) -> &'static str {
        "C12"
    }
    fn tape_len(&self, _t: Tier) -> usize {
        64
    }
    fn cases(&self, t: Tier) -> usize {
        t.pick(20_000, 1_000_000)
    }
    fn rayon_threads(&self) -> Option<usize> {
        Some(3)
    }
    fn rule(&self) -> String {
        "tape-decoded network (1-2 generated layers of any kind incl. feedback blocks + a final dense layer (1-5 outputs, one case in 25: 17-130) with soft-max or another activation; in one case of four the output activation is changed afterwards with set_activation; in one case of three up to three skip connections, chains included, are added; in one case of six the layers before the output layer are a chain of 2-4 equally wide dense layers with a loop connection (1-3 iterations, input skips on/off, any accumulation) over two or more of them and, three times in four, a skip connection whose source lies inside the looped range), objective of 7, tolerance in {0, 1e-6, 1e-3, 0.1, 1, 1e30}, N in {1, 2, 63, 64, 65, 127, 128, 129, 200} or random 1..300; targets derived from the predictions so that components lie exactly on / at the tolerance / inside / outside it and one-hot or soft (peak often below 0.5) targets agree or disagree with the arg-max; in one regression case of five the linear output layer has weights of scale 1000 (outputs and targets large against the small tolerances); inputs independent O(1), or (1/8) a fine sweep with consecutive inputs a few ulp apart, or (1/8) of magnitude 1e-6. Oracle from public pieces: loss = mean of objective(predict(x), t) (order-free tolerance), accuracy interval by the stated rule (components at exactly the tolerance and arg-max ties may count either way), predict_batch[i] == predict(x_i) bitwise in order, predict == last activation of forward; for spatial inputs the samples are in a third of the cases also handed to predict / predict_batch as flat vectors; a second validate call on a prefix of the data (fewer samples, same network object) is held to the same rule. Non-trivial: N > 64, N mod 64 != 0 and both scoring outcomes present. Distinct = (architecture, objective, tolerance, N).".into()
    }
    fn run_case(&self, tape: &[u32], ev: &mut CaseEv) -> CheckResult {
        check(&decode(tape), ev)
    }
    fn describe(&self, tape: &[u32]) -> Value {
        let c = decode(tape);
        json!({"spec": format!("{:?}", c.spec), "objective": format!("{:?}", c.obj), "tol": c.tol, "n": c.n, "softmax": c.softmax, "loop(chain layers, iterations, inskips)": format!("{:?}", c.looped)})
    }
}

pub fn run(eng: &Engine, replay_path: Option<&str>) -> i32 {
    let p = C12;
    if let Some(path) = replay_path {
        return replay(&p, eng, path);
    }
    standard_run(&p, eng)
}
