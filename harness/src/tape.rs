//! Choice-sequence ("tape") decoding. Every generated case of every property is a pure function
//! of a `Vec<u32>`; proptest generates and shrinks the tape, the replay file stores it, libFuzzer
//! bytes are reinterpreted as one. Draws are mapped monotonically, so a numerically smaller entry
//! is a structurally simpler choice and an exhausted tape yields the minimal case.

pub struct Tape<'a> {
    data: &'a [u32],
    pos: usize,
}

impl<'a> Tape<'a> {
    pub fn new(data: &'a [u32]) -> Self {
        Tape { data, pos: 0 }
    }

    /// The next raw entry (0 once the tape is exhausted).
    pub fn raw(&mut self) -> u32 {
        let v = self.data.get(self.pos).copied().unwrap_or(0);
        self.pos += 1;
        v
    }

    pub fn consumed(&self) -> usize {
        self.pos
    }

    /// Integer in `lo..=hi`, monotone in the tape entry.
    pub fn int(&mut self, lo: i64, hi: i64) -> i64 {
        debug_assert!(lo <= hi);
        let span = (hi - lo) as u128 + 1;
        let v = self.raw() as u128;
        lo + ((v * span) >> 32) as i64
    }

    pub fn usize(&mut self, lo: usize, hi: usize) -> usize {
        self.int(lo as i64, hi as i64) as usize
    }

    /// Index in `0..n`.
    pub fn pick(&mut self, n: usize) -> usize {
        debug_assert!(n > 0);
        self.usize(0, n - 1)
    }

    pub fn bool(&mut self) -> bool {
        self.raw() >= 0x8000_0000
    }

    /// True with probability `num/den`; false is the simple choice.
    pub fn chance(&mut self, num: u32, den: u32) -> bool {
        let v = self.raw() as u64;
        // true for the top num/den fraction of the range
        v * (den as u64) >= ((den - num) as u64) << 32
    }

    /// Uniform in [0, 1).
    pub fn unit(&mut self) -> f64 {
        self.raw() as f64 / 4294967296.0
    }

    /// Uniform f32 in [lo, hi] (monotone).
    pub fn f32_in(&mut self, lo: f32, hi: f32) -> f32 {
        let u = self.unit();
        (lo as f64 + u * (hi as f64 - lo as f64)) as f32
    }

    /// A value on the dyadic grid `k / 2^bits`, `k` in `-range..=range`; 0 maps to the middle-ish
    /// small positive value so that the minimal case is not degenerate.
    pub fn dyadic(&mut self, range: i64, bits: u32) -> f32 {
        let k = self.int(-range, range);
        k as f32 / (1u64 << bits) as f32
    }
}

/// Counter-based mixer (splitmix64) used to expand a tape-drawn seed into bulk numeric payloads.
#[derive(Clone)]
pub struct Mix {
    state: u64,
}

impl Mix {
    pub fn new(seed: u64) -> Self {
        Mix { state: seed.wrapping_mul(0x9E37_79B9_7F4A_7C15) ^ 0xD1B5_4A32_D192_ED03 }
    }

    pub fn next_u64(&mut self) -> u64 {
        self.state = self.state.wrapping_add(0x9E37_79B9_7F4A_7C15);
        let mut z = self.state;
        z = (z ^ (z >> 30)).wrapping_mul(0xBF58_476D_1CE4_E5B9);
        z = (z ^ (z >> 27)).wrapping_mul(0x94D0_49BB_1331_11EB);
        z ^ (z >> 31)
    }

    pub fn next_u32(&mut self) -> u32 {
        (self.next_u64() >> 32) as u32
    }

    pub fn unit(&mut self) -> f64 {
        (self.next_u64() >> 11) as f64 / (1u64 << 53) as f64
    }

    pub fn below(&mut self, n: u64) -> u64 {
        ((self.next_u64() >> 32) * n) >> 32
    }

    /// Uniform f32 in [lo, hi).
    pub fn f32_in(&mut self, lo: f32, hi: f32) -> f32 {
        (lo as f64 + self.unit() * (hi as f64 - lo as f64)) as f32
    }
}

/// Bulk payload: `n` numbers of O(1) magnitude with distinct values, a pure function of
/// `(seed, mode)`. Mode 0 is a simple dyadic ramp (the shrink target).
///   0: dyadic ramp  ((7 i + 3) mod 23 - 11) / 8
///   1: uniform in [-1, 1)
///   2: dyadic grid k/64, k in -128..=128, never 0
///   3: uniform in [-1,1) with |v| >= 0.05 (keeps ReLU kinks / ties away)
pub fn payload(seed: u32, mode: u32, n: usize, scale: f32) -> Vec<f32> {
    let mut m = Mix::new(seed as u64 ^ ((mode as u64) << 40));
    (0..n)
        .map(|i| {
            let v = match mode % 4 {
                0 => (((7 * i + 3 + seed as usize % 23) % 23) as f32 - 11.0) / 8.0,
                1 => m.f32_in(-1.0, 1.0),
                2 => {
                    let mut k = m.below(257) as i64 - 128;
                    if k == 0 {
                        k = 1 + (i as i64 % 5);
                    }
                    k as f32 / 64.0
                }
                _ => {
                    let v = m.f32_in(0.05, 1.0);
                    if m.next_u32() & 1 == 0 {
                        v
                    } else {
                        -v
                    }
                }
            };
            v * scale
        })
        .collect()
}

/// Smallest tape entry that `Tape::int(lo, hi)` decodes to `value` (for building exact replay
/// tapes out of enumerated cases).
pub fn enc_int(value: i64, lo: i64, hi: i64) -> u32 {
    let span = (hi - lo) as u128 + 1;
    let k = (value - lo) as u128;
    let v = ((k << 32) + span - 1) / span;
    v as u32
}

pub fn enc_pick(k: usize, n: usize) -> u32 {
    enc_int(k as i64, 0, n as i64 - 1)
}
