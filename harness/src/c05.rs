//! C05 — results are independent of thread count and scheduling.
//!
//! Metamorphic: every schedule (thread count x delay plan) builds a FRESH network from the same
//! specification and weights and must reproduce the 1-thread, no-delay run bit for bit.

use crate::c10::gen_optimizer;
use crate::c03::Kind;
use crate::engine::*;
use crate::net::*;
use crate::refmodel::{ActK, ObjK};
use crate::tape::{payload, Mix, Tape};
use crate::tens;
use crate::fail;
use neurons::tensor::Tensor;
use serde_json::{json, Value};

#[derive(Debug, Clone)]
struct Case {
    spec: NetSpec,
    kind: Kind,
    batch: usize,
    ntrain: usize,
    neval: usize,
    epochs: i32,
    wseed: u32,
    dseed: u32,
    schedules: Vec<(usize, u32, bool)>, // (threads, delay-plan seed; 0 = no delays, the pool first serves a decoy network)
    /// skip connections between the trailing dense layers (a shared source makes the backward pass sum several skip gradients)
    connects: Vec<(usize, usize)>,
    /// scale of the evaluation inputs (1e-39: intermediate values become subnormal)
    eval_scale: f32,
    /// loop connections (outof, into, iterations) over trailing dense layers that carry dropout
    loops: Vec<(usize, usize, usize)>,
}

const THREADS: [usize; 8] = [1, 2, 3, 5, 8, 16, 32, 48];

fn decode(tape: &[u32], tier: Tier) -> Case {
    let mut t = Tape::new(tape);
    let o = GenOpts { max_layers: 4, max_hw: 4, max_c: 2, max_dense: 6, allow_feedback: false, allow_dropout: true, acts: &[ActK::Tanh, ActK::Sigmoid, ActK::Leaky, ActK::Linear], end_dense: false, ..GenOpts::default() };
    // every layer kind: build by construction around a spatial input
    let input = vec![t.usize(1, 2), t.usize(2, 4), t.usize(2, 4)];
    let mut layers: Vec<LayerSpec> = Vec::new();
    let mut cur = input.clone();
    let push = |layers: &mut Vec<LayerSpec>, cur: &mut Vec<usize>, l: LayerSpec| {
        *cur = model_out(cur, &l).expect("fits");
        layers.push(l);
    };
    let f = t.usize(1, 2);
    let l = gen_same_size(&mut t, f, cur[1], cur[2], &o);
    push(&mut layers, &mut cur, l);
    if t.bool() {
        // spatial feedback block
        // (no skips here: a skip block whose output is flattened for a dense layer aborts in the
        // block's backward pass - outside the listed properties, see DESIGN.md)
        let c = cur[0];
        let inner = vec![gen_same_size(&mut t, c, cur[1], cur[2], &o)];
        let fb = LayerSpec::Feedback { layers: inner, loops: t.usize(2, 4), inskips: false, outskips: false, acc: Acc::Mean };
        push(&mut layers, &mut cur, fb);
    }
    if t.bool() {
        let l = LayerSpec::Deconv { cfg: crate::refmodel::ConvCfg { filters: t.usize(1, 2), kernel: (2, 2), stride: (1, 1), padding: (0, 0), dilation: (1, 1) }, act: gen_act(&mut t, &o), dropout: if t.bool() { Some(300) } else { None } };
        push(&mut layers, &mut cur, l);
    }
    if cur[1] >= 2 && cur[2] >= 2 && t.bool() {
        push(&mut layers, &mut cur, LayerSpec::Pool { kernel: (2, 2), stride: (1, 1) });
    }
    let w = t.usize(2, 6);
    push(&mut layers, &mut cur, LayerSpec::Dense { out: w, act: gen_act(&mut t, &o), bias: true, dropout: if t.bool() { Some(t.usize(100, 600) as u32) } else { None } });
    if t.bool() {
        // flat feedback block; input skips with >= 3 loops exercise the block's skip-gradient sums
        let skips = t.bool();
        let fb = LayerSpec::Feedback { layers: vec![LayerSpec::Dense { out: w, act: gen_act(&mut t, &o), bias: t.bool(), dropout: None }], loops: t.usize(2, 4), inskips: skips, outskips: skips && t.bool(), acc: Acc::Mean };
        push(&mut layers, &mut cur, fb);
    }
    // optionally two more dense layers of the same width, so that skip connections with a shared source exist
    let mut connects = Vec::new();
    let mut loops: Vec<(usize, usize, usize)> = Vec::new();
    if t.chance(1, 3) {
        let first = layers.len();
        push(&mut layers, &mut cur, LayerSpec::Dense { out: w, act: gen_act(&mut t, &o), bias: t.bool(), dropout: None });
        push(&mut layers, &mut cur, LayerSpec::Dense { out: w, act: gen_act(&mut t, &o), bias: t.bool(), dropout: None });
        // inputs of layers first, first+1 and the final layer all have width w
        if t.bool() {
            connects.push((first, first + 1));
            connects.push((first, first + 2));
        } else {
            // instead: a loop connection over the first of them, which gets dropout (a layer evaluated several times
            // per sample while the samples of a batch run in parallel)
            if let LayerSpec::Dense { dropout, .. } = &mut layers[first] {
                *dropout = Some(t.usize(200, 600) as u32);
            }
            loops.push((first, first, t.usize(1, 3)));
        }
    }
    let out = t.usize(1, 4);
    push(&mut layers, &mut cur, LayerSpec::Dense { out, act: [ActK::Linear, ActK::Sigmoid, ActK::Softmax][t.pick(3)], bias: t.bool(), dropout: None });
    let kind = gen_optimizer(&mut t);
    let big = tier == Tier::Thorough;
    let nsched = if big { 10 } else { 5 };
    let mut schedules = Vec::new();
    for i in 0..nsched {
        let th = THREADS[1 + t.pick(THREADS.len() - 1)];
        let delay = if i % 2 == 1 { t.raw() | 1 } else { 0 };
        schedules.push((th, delay, i % 3 == 2));
    }
    schedules.push((1, 0, false)); // a repetition of the baseline itself (fresh network, same schedule)
    let eval_scale: f32 = if t.chance(1, 5) { 1e-39 } else { 1.0 };
    if eval_scale != 1.0 {
        // subnormal values must reach the outputs: no biases, no sigmoid / soft-max
        fn strip(l: &mut LayerSpec) {
            match l {
                LayerSpec::Dense { act, bias, .. } => {
                    *bias = false;
                    if matches!(act, ActK::Sigmoid | ActK::Softmax) {
                        *act = ActK::Tanh;
                    }
                }
                LayerSpec::Conv { act, .. } | LayerSpec::Deconv { act, .. } => {
                    if matches!(act, ActK::Sigmoid | ActK::Softmax) {
                        *act = ActK::Leaky;
                    }
                }
                LayerSpec::Feedback { layers, .. } => layers.iter_mut().for_each(strip),
                LayerSpec::Pool { .. } => {}
            }
        }
        layers.iter_mut().for_each(strip);
    }
    let (batch, ntrain, neval, epochs, wseed, dseed) = (
        t.usize(2, if big { 32 } else { 12 }),
        t.usize(8, if big { 120 } else { 40 }),
        if t.chance(1, 3) { t.usize(261, if big { 1200 } else { 700 }) } else { t.usize(65, if big { 400 } else { 260 }) },
        t.usize(1, 3) as i32,
        t.raw(),
        t.raw(),
    );
    // (drawn last) one case in two: behind the first layer a pair of same-size convolutions / deconvolutions, the
    // first with 3-6 filters, the second back to the channel count - layers with several filters that are not the
    // first layer, so that their input gradients (sums over filters) matter for the weights in front of them
    if t.chance(1, 2) {
        let c1 = match &layers[0] { LayerSpec::Conv { cfg, .. } | LayerSpec::Deconv { cfg, .. } => cfg.filters, _ => unreachable!() };
        let many = t.usize(3, 6);
        let mut l1 = gen_same_size(&mut t, many, input[1], input[2], &o);
        let mut l2 = gen_same_size(&mut t, c1, input[1], input[2], &o);
        if eval_scale != 1.0 {
            for l in [&mut l1, &mut l2] {
                if let LayerSpec::Conv { act, .. } | LayerSpec::Deconv { act, .. } = l {
                    if matches!(act, ActK::Sigmoid | ActK::Softmax) {
                        *act = ActK::Leaky;
                    }
                }
            }
        }
        layers.insert(1, l1);
        layers.insert(2, l2);
        for c in connects.iter_mut() {
            *c = (c.0 + 2, c.1 + 2);
        }
        for l in loops.iter_mut() {
            *l = (l.0 + 2, l.1 + 2, l.2);
        }
    }
    Case { spec: NetSpec { input, layers }, kind, batch, ntrain, neval, epochs, wseed, dseed, schedules, connects, eval_scale, loops }
}

#[derive(PartialEq, Debug)]
struct Outcome {
    train: Vec<u32>,
    val: Vec<u32>,
    acc: Vec<u32>,
    weights: Vec<Vec<u32>>,
    validate: (u32, u32),
    batch: Vec<Vec<u32>>,
}

fn run_once(case: &Case, threads: usize, delay_seed: u32, decoy: bool, data: &(Vec<Tensor>, Vec<Tensor>, Vec<Tensor>, Vec<Tensor>, Vec<Tensor>)) -> Result<Outcome, String> {
    let spec = &case.spec;
    let mut net = build(spec)?;
    for (a, b) in &case.connects {
        let (a, b) = (*a, *b);
        catch(std::panic::AssertUnwindSafe(|| net.connect(a, b)))?;
    }
    for (b, a, k) in &case.loops {
        let (b, a, k) = (*b, *a, *k);
        catch(std::panic::AssertUnwindSafe(|| net.loopback(b, a, k, std::sync::Arc::new(|x| 1.0 / x), false)))?;
    }
    let ps = seeded_params(&net, spec, case.wseed, 1, 0.8);
    apply_params(&mut net, &ps);
    net.set_objective(lib_obj(ObjK::MSE), None);
    let kind = case.kind.clone();
    catch(std::panic::AssertUnwindSafe(|| net.set_optimizer(kind.create())))?;
    let (tx, ty, ex, ey, exv) = data;
    let (txr, tyr): (Vec<&Tensor>, Vec<&Tensor>) = (tx.iter().collect(), ty.iter().collect());
    let (exr, eyr): (Vec<&Tensor>, Vec<&Tensor>) = (ex.iter().collect(), ey.iter().collect());
    let exvr: Vec<&Tensor> = exv.iter().collect(); // inputs of the stand-alone validate / predict_batch calls
    let plan: Vec<u32> = if delay_seed == 0 {
        vec![]
    } else {
        let mut m = Mix::new(delay_seed as u64);
        (0..37).map(|_| if m.below(3) == 0 { m.below(200) as u32 } else { 0 }).collect()
    };
    let pool = rayon::ThreadPoolBuilder::new().num_threads(threads).build().map_err(|e| e.to_string())?;
    if decoy {
        // The pool's threads first serve another network of the same family: same layer list and the same shapes
        // from the first layer's output on, but other weights, other inputs and a first layer whose input is two
        // pixels larger / smaller with its padding reduced / increased by one (same padded extent, same output).
        // Nothing a thread keeps from earlier work may influence the run that follows.
        if let Some((dspec, dconn)) = decoy_of(case) {
            if let Ok(mut dn) = build(&dspec) {
                let mut ok = true;
                for (a, b) in &dconn {
                    let (a, b) = (*a, *b);
                    ok &= catch(std::panic::AssertUnwindSafe(|| dn.connect(a, b))).is_ok();
                }
                if ok {
                    let dps = seeded_params(&dn, &dspec, case.wseed ^ 0x5eed, 1, 0.8);
                    apply_params(&mut dn, &dps);
                    let n_in = count(&dspec.input);
                    let xs: Vec<Tensor> = (0..(8 * threads).min(200)).map(|i| tens::build(&dspec.input, &payload(case.dseed ^ (0xd0c0 + i as u32 * 31), 1, n_in, 1.0))).collect();
                    let xr: Vec<&Tensor> = xs.iter().collect();
                    let _ = pool.install(|| catch(std::panic::AssertUnwindSafe(|| dn.predict_batch(&xr))));
                }
            }
        }
    }
    neurons::verif::set_delay_plan(plan);
    let r = pool.install(|| {
        catch(std::panic::AssertUnwindSafe(|| {
            let (tl, vl, va) = net.learn(&txr, &tyr, Some((&exr, &eyr, 1000)), case.batch, case.epochs, if case.dseed % 4 == 0 { Some(1 + (case.dseed >> 3) as i32 % 2) } else { None });
            let v = net.validate(&exvr, &eyr, 0.05);
            let pb = net.predict_batch(&exvr);
            (tl, vl, va, v, pb)
        }))
    });
    neurons::verif::set_delay_plan(vec![]);
    let (tl, vl, va, v, pb) = r?;
    let bits = |x: &Vec<f32>| x.iter().map(|f| f.to_bits()).collect::<Vec<u32>>();
    Ok(Outcome {
        train: bits(&tl),
        val: bits(&vl),
        acc: bits(&va),
        weights: collect_params(&net).iter().map(|(_, t)| bits(&tens::flat(t))).collect(),
        validate: (v.0.to_bits(), v.1.to_bits()),
        batch: pb.iter().map(|t| bits(&tens::flat(t))).collect(),
    })
}

/// The decoy network of `run_once` (None when the first layer cannot be shifted).
fn decoy_of(case: &Case) -> Option<(NetSpec, Vec<(usize, usize)>)> {
    let mut spec = case.spec.clone();
    if let LayerSpec::Conv { cfg, .. } = &mut spec.layers[0] {
        let shift = |n: &mut usize, p: &mut usize| {
            if *p >= 1 {
                *n += 2;
                *p -= 1;
            } else if *n >= 3 {
                *n -= 2;
                *p += 1;
            }
        };
        let (mut h, mut w) = (spec.input[1], spec.input[2]);
        shift(&mut h, &mut cfg.padding.0);
        shift(&mut w, &mut cfg.padding.1);
        spec.input = vec![spec.input[0], h, w];
    }
    // the shapes after the first layer must be unchanged
    let a = model_out(&case.spec.input, &case.spec.layers[0])?;
    let b = model_out(&spec.input, &spec.layers[0])?;
    if a != b {
        return None;
    }
    Some((spec, case.connects.clone()))
}

fn first_difference(a: &Outcome, b: &Outcome) -> String {
    if a.train != b.train {
        return format!("per-epoch training losses differ: {:?} vs {:?}", a.train.iter().map(|x| f32::from_bits(*x)).collect::<Vec<_>>(), b.train.iter().map(|x| f32::from_bits(*x)).collect::<Vec<_>>());
    }
    if a.val != b.val {
        return "per-epoch validation losses differ".into();
    }
    if a.acc != b.acc {
        return "per-epoch accuracies differ".into();
    }
    if a.weights != b.weights {
        let k = a.weights.iter().zip(b.weights.iter()).position(|(x, y)| x != y).unwrap();
        return format!("final weights differ (parameter tensor #{})", k);
    }
    if a.validate != b.validate {
        return "validate() differs".into();
    }
    if a.batch != b.batch {
        let k = a.batch.iter().zip(b.batch.iter()).position(|(x, y)| x != y).unwrap_or(0);
        let moved = b.batch.iter().position(|y| *y == a.batch[k]);
        return format!("predict_batch output #{} differs{}", k, match moved { Some(j) if j != k => format!(" (it appears at position {})", j), _ => String::new() });
    }
    "no difference".into()
}

fn check(case: &Case, ev: &mut CaseEv) -> CheckResult {
    let spec = &case.spec;
    for l in &spec.layers {
        ev.class(format!("has:{}", l.kind()));
    }
    let fb_skips = spec.layers.iter().any(|l| matches!(l, LayerSpec::Feedback { inskips, outskips, .. } if *inskips || *outskips));
    let fb_inskip3 = spec.layers.iter().any(|l| matches!(l, LayerSpec::Feedback { inskips: true, loops, .. } if *loops >= 3));
    if fb_skips {
        ev.class("feedback with skips");
    }
    if spec.layers.iter().any(|l| l.has_dropout()) {
        ev.class("dropout");
    }
    ev.class(format!("optimizer:{}", case.kind.name()));
    let n_in = count(&spec.input);
    let out_dims = final_dims(spec);
    let mk = |seed: u32, n: usize| -> (Vec<Tensor>, Vec<Tensor>) {
        (
            (0..n).map(|i| tens::build(&spec.input, &payload(seed.wrapping_add(i as u32 * 131), 1, n_in, 1.0))).collect(),
            (0..n).map(|i| tens::build(&out_dims, &payload(seed.wrapping_add(77777 + i as u32 * 17), 1, count(&out_dims), 1.0))).collect(),
        )
    };
    let (tx, ty) = mk(case.dseed, case.ntrain);
    let (mut ex, ey) = mk(case.dseed ^ 0xdead, case.neval);
    if case.eval_scale != 1.0 {
        ev.class("evaluation inputs of subnormal scale");
        ex = ex.iter().map(|x| { let d = tens::shape_dims(&x.shape); tens::build(&d, &tens::flat(x).iter().map(|v| v * case.eval_scale).collect::<Vec<f32>>()) }).collect();
    }
    if !case.connects.is_empty() {
        ev.class("skip connections with a shared source");
    }
    if !case.loops.is_empty() {
        ev.class("loop connection over a dense layer with dropout");
    }
    // one case in six (outputs without soft-max): one input of the stand-alone validate / predict_batch calls holds a
    // NaN ("missing value"): its loss is NaN, every other sample must still be scored the same way in every schedule
    let mut exv = ex.clone();
    let softmax_out = matches!(spec.layers.last(), Some(LayerSpec::Dense { act: ActK::Softmax, .. }));
    if !softmax_out && (case.dseed >> 9) % 6 == 0 {
        let k = (case.dseed as usize >> 13) % exv.len();
        let d = tens::shape_dims(&exv[k].shape);
        let mut v = tens::flat(&exv[k]);
        v[0] = f32::NAN;
        exv[k] = tens::build(&d, &v);
        ev.class("one evaluation input holds a NaN");
    }
    let data = (tx, ty, ex, ey, exv);
    let base = match run_once(case, 1, 0, false, &data) {
        Ok(b) => b,
        Err(p) => {
            if p.contains("Loss is NaN") {
                ev.discard = Some("training diverged to NaN");
                return Ok(());
            }
            // Not a scheduling question: the 1-thread run itself aborts (typically diverged training:
            // NaN predictions make validate()'s arg-max unwrap fail). Counted, not asserted on.
            let _ = p;
            ev.discard = Some("1-thread baseline run aborts (diverged training)");
            return Ok(());
        }
    };
    if base.train.iter().chain(base.val.iter()).any(|b| !f32::from_bits(*b).is_finite()) {
        ev.discard = Some("non-finite losses");
        return Ok(());
    }
    for (threads, delay, decoy) in &case.schedules {
        if *decoy {
            ev.class("schedule: pool served a decoy network first");
        }
        let o = match run_once(case, *threads, *delay, *decoy, &data) {
            Ok(o) => o,
            Err(p) => fail!("run with {} threads panicked although the 1-thread run did not: {}", threads, p),
        };
        if o != base {
            let msg = format!(
                "run with {} worker threads{} differs from the 1-thread run of a freshly built identical network: {}; batch {}, {} training / {} evaluation samples, {} epochs, optimizer {}; spec {:?}",
                threads, if *delay != 0 { " and injected delays" } else if *decoy { " (whose threads served another network first)" } else { "" }, first_difference(&base, &o), case.batch, case.ntrain, case.neval, case.epochs, case.kind.name(), spec
            );
            if fb_inskip3 {
                return Err(Fail::known(msg, "feedback_backward_hashmap_order"));
            }
            fail!("{}", msg);
        }
    }
    ev.nontrivial = case.batch >= 4 && case.neval > 64 && case.schedules.iter().any(|(t, _, _)| *t >= 2);
    ev.set_sig(&(spec, case.batch, case.ntrain, case.neval, &case.schedules));
    ev.units = case.schedules.len() as u64;
    Ok(())
}

pub struct C05(pub Tier);

impl Prop for C05 {
    fn id(&self) -> &'static str {
        "C05"
    }
    fn tape_len(&self, _t: Tier) -> usize {
        96
    }
    fn cases(&self, t: Tier) -> usize {
        t.pick(100, 2_000)
    }
    fn workers(&self, _t: Tier) -> usize {
        1 // the delay plan is process-global; schedules are run one after the other
    }
    fn rule(&self) -> String {
        "tape-decoded network containing a convolution, in half of the cases followed by a pair of shape-preserving convolutions / deconvolutions with 3-6 and then the original number of filters (layers with several filters that are not the first layer), optionally a spatial feedback block, a deconvolution and a max-pool, a dense layer, optionally a flat feedback block (with and without skips, 2-4 loops), optionally two more dense layers with skip connections from a shared source or with a loop connection over the first of them (which then carries dropout), and a final dense layer (linear / sigmoid / soft-max); evaluation inputs optionally scaled to 1e-39 (subnormal intermediates), in one case of six one input of the stand-alone validate / predict_batch calls holds a NaN; dropout on some layers; one of five optimizers; batch 2..12 (thorough 32), 8..40 (120) training samples, 65..260 (400) evaluation inputs, in one case of three 261..700 (1200) (more than one 64-chunk), non-dyadic data, 1-3 epochs with validation data, in one case of four with progress printouts requested (every epoch or every second one; the same for all runs of a case). Schedules per case: 5 (thorough 10) draws from dedicated rayon pools with {2, 3, 5, 8, 16, 32, 48} threads, every second one with a tape-derived delay plan (0-200 us sleeps at the per-sample / per-prediction hooks), every third one on a pool whose threads first served a decoy network (same layer list and downstream shapes, other weights and inputs, first-layer geometry shifted by one padding step), plus a repetition of the 1-thread run. Oracle: to_bits equality of train / validation loss vectors, accuracies, all final weights, validate() and predict_batch() in order against the 1-thread run; every run builds a fresh network. Non-trivial: batch >= 4, > 64 evaluation inputs, >= 2 threads. Distinct = (architecture, batch, sizes, schedule list).".into()
    }
    fn assumptions(&self) -> Vec<String> {
        vec!["rayon's work-stealing decisions are not owned by the harness: thread counts, repetitions and injected delays are explored, not interleavings; a pass means no dependence was observed".into()]
    }
    fn run_case(&self, tape: &[u32], ev: &mut CaseEv) -> CheckResult {
        check(&decode(tape, self.0), ev)
    }
    fn describe(&self, tape: &[u32]) -> Value {
        let c = decode(tape, self.0);
        json!({"spec": format!("{:?}", c.spec), "optimizer": format!("{:?}", c.kind), "batch": c.batch, "ntrain": c.ntrain, "neval": c.neval, "epochs": c.epochs, "schedules(threads, delay seed, decoy first)": c.schedules})
    }
}

pub fn run(eng: &Engine, replay_path: Option<&str>) -> i32 {
    let p = C05(eng.tier);
    if let Some(path) = replay_path {
        return replay(&p, eng, path);
    }
    standard_run(&p, eng)
}
