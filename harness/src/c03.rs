//! C03 — optimizer steps follow the documented update rules for every history.
//!
//! Only the public `create -> validate -> update` API is used. The library's state is hidden, so
//! the reference keeps its own state from the same gradient history: once in f64 (the oracle) and
//! once in f32 (a "shadow" whose distance from the f64 run measures how ill-conditioned the step
//! is; the tolerance scales with it). Weights are re-synchronised every step, so only one step of
//! weight rounding is compared.

use crate::engine::*;
use crate::fcmp::{ulp_of, ulps32};
use crate::tape::{Mix, Tape};
use crate::tens;
use crate::{ensure, fail};
use neurons::optimizer::{self, Optimizer};
use neurons::tensor::Tensor;
use serde_json::{json, Value};

#[derive(Debug, Clone, PartialEq)]
pub enum Kind {
    SGD { lr: f32, decay: Option<f32> },
    SGDM { lr: f32, momentum: f32, dampening: f32, decay: Option<f32> },
    Adam { lr: f32, b1: f32, b2: f32, eps: f32, decay: Option<f32> },
    AdamW { lr: f32, b1: f32, b2: f32, eps: f32, decay: f32 },
    RMSprop { lr: f32, alpha: f32, eps: f32, decay: Option<f32>, momentum: Option<f32>, centered: bool },
}

impl Kind {
    pub fn name(&self) -> &'static str {
        match self {
            Kind::SGD { .. } => "SGD",
            Kind::SGDM { .. } => "SGDM",
            Kind::Adam { .. } => "Adam",
            Kind::AdamW { .. } => "AdamW",
            Kind::RMSprop { .. } => "RMSprop",
        }
    }
    pub fn stateful(&self) -> bool {
        !matches!(self, Kind::SGD { .. })
    }
    pub fn create(&self) -> Optimizer {
        match *self {
            Kind::SGD { lr, decay } => optimizer::SGD::create(lr, decay),
            Kind::SGDM { lr, momentum, dampening, decay } => optimizer::SGDM::create(lr, momentum, dampening, decay),
            Kind::Adam { lr, b1, b2, eps, decay } => optimizer::Adam::create(lr, b1, b2, eps, decay),
            Kind::AdamW { lr, b1, b2, eps, decay } => optimizer::AdamW::create(lr, b1, b2, eps, decay),
            Kind::RMSprop { lr, alpha, eps, decay, momentum, centered } => optimizer::RMSprop::create(lr, alpha, eps, decay, momentum, centered),
        }
    }
    /// The hyper-parameters after `validate` (a value of exactly 0 is replaced by a default).
    pub fn validated(&self) -> Kind {
        let d = |v: f32, def: f32| if v == 0.0 { def } else { v };
        match *self {
            Kind::SGD { lr, decay } => Kind::SGD { lr: d(lr, 0.1), decay },
            Kind::SGDM { lr, momentum, dampening, decay } => Kind::SGDM { lr: d(lr, 0.1), momentum: d(momentum, 0.9), dampening, decay },
            Kind::Adam { lr, b1, b2, eps, decay } => Kind::Adam { lr: d(lr, 0.001), b1: d(b1, 0.9), b2: d(b2, 0.999), eps: d(eps, 1e-8), decay },
            Kind::AdamW { lr, b1, b2, eps, decay } => Kind::AdamW { lr: d(lr, 0.001), b1: d(b1, 0.9), b2: d(b2, 0.999), eps: d(eps, 1e-8), decay },
            Kind::RMSprop { lr, alpha, eps, decay, momentum, centered } => Kind::RMSprop { lr: d(lr, 0.01), alpha: d(alpha, 0.99), eps: d(eps, 1e-8), decay, momentum, centered },
        }
    }
}

/// Arithmetic abstraction so that the documented equations are written once and evaluated in f64
/// (oracle) and in f32 (conditioning shadow).
pub trait Num: Copy + std::fmt::Debug {
    fn f(v: f32) -> Self;
    fn add(self, o: Self) -> Self;
    fn sub(self, o: Self) -> Self;
    fn mul(self, o: Self) -> Self;
    fn div(self, o: Self) -> Self;
    fn sqrt(self) -> Self;
    fn powi(self, n: i32) -> Self;
    fn to64(self) -> f64;
}
impl Num for f64 {
    fn f(v: f32) -> f64 { v as f64 }
    fn add(self, o: f64) -> f64 { self + o }
    fn sub(self, o: f64) -> f64 { self - o }
    fn mul(self, o: f64) -> f64 { self * o }
    fn div(self, o: f64) -> f64 { self / o }
    fn sqrt(self) -> f64 { f64::sqrt(self) }
    fn powi(self, n: i32) -> f64 { f64::powi(self, n) }
    fn to64(self) -> f64 { self }
}
impl Num for f32 {
    fn f(v: f32) -> f32 { v }
    fn add(self, o: f32) -> f32 { self + o }
    fn sub(self, o: f32) -> f32 { self - o }
    fn mul(self, o: f32) -> f32 { self * o }
    fn div(self, o: f32) -> f32 { self / o }
    fn sqrt(self) -> f32 { f32::sqrt(self) }
    fn powi(self, n: i32) -> f32 { f32::powi(self, n) }
    fn to64(self) -> f64 { self as f64 }
}

/// Per-element optimizer state of the reference.
#[derive(Clone, Copy, Debug)]
pub struct St<N: Num> {
    pub a: N, // velocity (SGDM) / first moment (Adam) / square average (RMSprop)
    pub b: N, // second moment (Adam) / gradient average (RMSprop)
    pub c: N, // momentum buffer (RMSprop)
}
impl<N: Num> St<N> {
    pub fn zero() -> Self {
        St { a: N::f(0.0), b: N::f(0.0), c: N::f(0.0) }
    }
}

/// One documented update step for one element. Returns (new weight, conditioning flag: true when
/// the centred RMSprop variance estimate is ill-conditioned and only finiteness is required).
pub fn ref_step<N: Num>(k: &Kind, st: &mut St<N>, w: f32, g: f32, stepnr: i32) -> (N, bool) {
    let one = N::f(1.0);
    let wv = N::f(w);
    let mut gv = N::f(g);
    match *k {
        Kind::SGD { lr, decay } => {
            if let Some(d) = decay {
                gv = gv.add(N::f(d).mul(wv));
            }
            (wv.sub(N::f(lr).mul(gv)), false)
        }
        Kind::SGDM { lr, momentum, dampening, decay } => {
            if let Some(d) = decay {
                gv = gv.add(N::f(d).mul(wv));
            }
            if stepnr > 1 {
                st.a = N::f(momentum).mul(st.a).add(one.sub(N::f(dampening)).mul(gv));
                gv = st.a;
            } else {
                st.a = gv;
            }
            (wv.sub(N::f(lr).mul(gv)), false)
        }
        Kind::Adam { lr, b1, b2, eps, decay } => {
            if let Some(d) = decay {
                gv = gv.add(N::f(d).mul(wv));
            }
            st.a = N::f(b1).mul(st.a).add(one.sub(N::f(b1)).mul(gv));
            st.b = N::f(b2).mul(st.b).add(one.sub(N::f(b2)).mul(gv.mul(gv)));
            let m = st.a.div(one.sub(N::f(b1).powi(stepnr)));
            let v = st.b.div(one.sub(N::f(b2).powi(stepnr)));
            (wv.sub(N::f(lr).mul(m).div(v.sqrt().add(N::f(eps)))), false)
        }
        Kind::AdamW { lr, b1, b2, eps, decay } => {
            let wv = wv.sub(N::f(lr).mul(N::f(decay)).mul(wv));
            st.a = N::f(b1).mul(st.a).add(one.sub(N::f(b1)).mul(gv));
            st.b = N::f(b2).mul(st.b).add(one.sub(N::f(b2)).mul(gv.mul(gv)));
            let m = st.a.div(one.sub(N::f(b1).powi(stepnr)));
            let v = st.b.div(one.sub(N::f(b2).powi(stepnr)));
            (wv.sub(N::f(lr).mul(m).div(v.sqrt().add(N::f(eps)))), false)
        }
        Kind::RMSprop { lr, alpha, eps, decay, momentum, centered } => {
            if let Some(d) = decay {
                gv = gv.add(N::f(d).mul(wv));
            }
            st.a = N::f(alpha).mul(st.a).add(one.sub(N::f(alpha)).mul(gv.mul(gv)));
            let mut v = st.a;
            let mut ill = false;
            if centered {
                st.b = N::f(alpha).mul(st.b).add(one.sub(N::f(alpha)).mul(gv));
                v = v.sub(st.b.mul(st.b));
                ill = !(v.to64() >= 1e-3 * st.a.to64()) || v.to64() <= 0.0;
                if v.to64() < 0.0 {
                    v = N::f(0.0);
                }
            }
            let denom = v.sqrt().add(N::f(eps));
            if let Some(mu) = momentum {
                st.c = N::f(mu).mul(st.c).add(gv.div(denom));
                (wv.sub(N::f(lr).mul(st.c)), ill)
            } else {
                (wv.sub(N::f(lr).mul(gv).div(denom)), ill)
            }
        }
    }
}

#[derive(Debug, Clone)]
struct Slot {
    layer: usize,
    filter: usize,
    bias: usize,
    logical: usize,
    dims: Vec<usize>,
}

#[derive(Debug, Clone)]
struct Step {
    logical: usize,
    stepnr: i32,
    gclass: u8,
    gseed: u32,
    rot: usize,
}

#[derive(Debug, Clone)]
struct Case {
    kind: Kind,
    lens: Vec<usize>, // flat length per logical parameter
    wseed: u32,
    slots: Vec<Slot>,
    layout: Vec<Vec<usize>>, // tensors per (layer, filter)
    steps: Vec<Step>,
    step_pattern: u8,
}

fn opt_f(t: &mut Tape, lo: f32, hi: f32) -> Option<f32> {
    match t.pick(4) {
        0 => None,
        1 => Some(0.0),
        _ => Some(t.f32_in(lo, hi)),
    }
}

fn hyper(t: &mut Tape, lo: f32, hi: f32, choices: &[f32]) -> f32 {
    match t.pick(8) {
        0 => 0.0, // replaced by the default in validate
        1 | 2 | 3 => choices[t.pick(choices.len())],
        _ => t.f32_in(lo, hi),
    }
}

fn decode(tape: &[u32], tier: Tier) -> Case {
    let mut t = Tape::new(tape);
    let kind = match t.pick(5) {
        0 => Kind::SGD { lr: hyper(&mut t, 1e-4, 0.5, &[0.1, 0.01, 0.5]), decay: opt_f(&mut t, 0.0, 0.1) },
        1 => Kind::SGDM {
            lr: hyper(&mut t, 1e-4, 0.5, &[0.1, 0.01]),
            momentum: hyper(&mut t, 0.05, 0.99, &[0.9, 0.5]),
            dampening: if t.bool() { t.f32_in(0.0, 0.9) } else { 0.0 },
            decay: opt_f(&mut t, 0.0, 0.1),
        },
        2 => Kind::Adam {
            lr: hyper(&mut t, 1e-4, 0.2, &[0.001, 0.01]),
            b1: hyper(&mut t, 0.1, 0.99, &[0.9, 0.5]),
            b2: hyper(&mut t, 0.5, 0.9999, &[0.999, 0.9]),
            eps: hyper(&mut t, 1e-8, 1e-3, &[1e-8, 1e-6]),
            decay: opt_f(&mut t, 0.0, 0.1),
        },
        3 => Kind::AdamW {
            lr: hyper(&mut t, 1e-4, 0.2, &[0.001, 0.01]),
            b1: hyper(&mut t, 0.1, 0.99, &[0.9, 0.5]),
            b2: hyper(&mut t, 0.5, 0.9999, &[0.999, 0.9]),
            eps: hyper(&mut t, 1e-8, 1e-3, &[1e-8, 1e-6]),
            decay: [0.0, 0.01, 0.1][t.pick(3)],
        },
        _ => Kind::RMSprop {
            lr: hyper(&mut t, 1e-4, 0.2, &[0.01, 0.001]),
            alpha: hyper(&mut t, 0.1, 0.999, &[0.99, 0.9, 0.5]),
            eps: hyper(&mut t, 1e-8, 1e-3, &[1e-8, 1e-7]),
            decay: opt_f(&mut t, 0.0, 0.1),
            momentum: opt_f(&mut t, 0.05, 0.95),
            centered: t.bool(),
        },
    };
    let nlog = t.usize(1, 2);
    let sizes = [1usize, 2, 3, 4, 6, 8, 12, 16];
    let mut lens: Vec<usize> = (0..nlog).map(|_| sizes[t.pick(sizes.len())]).collect();
    let huge = t.chance(1, 60);
    if huge {
        lens[0] = 128 * 130; // beyond typical parallelisation thresholds
    }
    let wseed = t.raw();
    // layout: layers x filters x {1,2} tensors
    let nlayers = t.usize(1, 3);
    let mut layout = Vec::new();
    let mut slots = Vec::new();
    for l in 0..nlayers {
        let nf = t.usize(1, 2);
        let mut per = Vec::new();
        for f in 0..nf {
            let nt = t.usize(1, 2);
            per.push(nt);
            for b in 0..nt {
                if slots.len() >= 4 {
                    // further tensors exist in the layout but carry no parameter (zero-length)
                    continue;
                }
                let logical = t.pick(nlog);
                let n = lens[logical];
                let rank = t.usize(1, 3);
                let dims = match rank {
                    1 => vec![n],
                    2 => {
                        if n > 1000 {
                            let _ = t.raw();
                            vec![128, n / 128]
                        } else {
                            let divs: Vec<usize> = (1..=n).filter(|d| n % d == 0).collect();
                            let a = divs[t.pick(divs.len())];
                            vec![a, n / a]
                        }
                    }
                    _ => {
                        let divs: Vec<usize> = if n > 1000 { vec![1, 2, 4, 8, 128] } else { (1..=n).filter(|d| n % d == 0).collect() };
                        let a = divs[t.pick(divs.len())];
                        let m = n / a;
                        let divs2: Vec<usize> = (1..=m).filter(|d| m % d == 0).collect();
                        let b2 = divs2[t.pick(divs2.len())];
                        vec![a, b2, m / b2]
                    }
                };
                slots.push(Slot { layer: l, filter: f, bias: b, logical, dims });
            }
        }
        layout.push(per);
    }
    let step_pattern = t.pick(4) as u8;
    // one history in five starts at a late step number (bias corrections that have long converged)
    let step_offset: i32 = if t.chance(1, 5) { [100i32, 151, 152, 300, 1000, 5000][t.pick(6)] } else { 0 };
    let nsteps = if huge { t.usize(1, 6) } else { t.usize(1, tier.pick(60, 300)) };
    let mut steps = Vec::new();
    let mut counter = vec![0i32; nlog];
    let gclass_fixed = if t.bool() { Some(t.pick(6) as u8) } else { None };
    for _ in 0..nsteps {
        let logical = t.pick(nlog);
        counter[logical] += 1;
        let stepnr = match step_pattern {
            0 => 1,
            1 => counter[logical],
            2 => (counter[logical] + 1) / 2, // repeats (epoch-style: several updates per step number)
            _ => 1 + t.usize(0, 40) as i32,
        };
        let gclass = gclass_fixed.unwrap_or_else(|| t.pick(6) as u8);
        steps.push(Step { logical, stepnr: stepnr + step_offset, gclass, gseed: t.raw(), rot: t.pick(4) });
    }
    Case { kind, lens, wseed, slots, layout, steps, step_pattern }
}

fn gradient(n: usize, class: u8, seed: u32, stepidx: usize) -> Vec<f32> {
    let mut m = Mix::new(seed as u64);
    (0..n)
        .map(|i| match class {
            0 => m.f32_in(-1.0, 1.0),
            1 => 0.75 + i as f32 * 0.125,                                        // constant over the history
            2 => if m.below(4) == 0 { m.f32_in(-1.0, 1.0) } else { 0.0 },          // sparse
            3 => (if stepidx % 2 == 0 { 1.0 } else { -1.0 }) * (0.5 + 0.25 * i as f32), // sign flipping
            4 => m.f32_in(-1.0, 1.0) * 10f32.powi(-(8 + m.below(13) as i32)),    // tiny
            _ => m.f32_in(-1.0, 1.0) * 10f32.powi(2 + m.below(3) as i32),        // large
        })
        .collect()
}

fn zeros_like(dims: &[usize]) -> Tensor {
    tens::build(dims, &vec![0.0; dims.iter().product()])
}

fn build_vectors(case: &Case) -> Vec<Vec<Vec<Tensor>>> {
    case.layout
        .iter()
        .enumerate()
        .map(|(l, per)| {
            per.iter()
                .enumerate()
                .map(|(f, nt)| {
                    (0..*nt)
                        .map(|b| match case.slots.iter().find(|s| s.layer == l && s.filter == f && s.bias == b) {
                            Some(s) => zeros_like(&s.dims),
                            None => Tensor::single(vec![]),
                        })
                        .collect()
                })
                .collect()
        })
        .collect()
}

fn check(case: &Case, ev: &mut CaseEv) -> CheckResult {
    let kind = &case.kind;
    let vk = kind.validated();
    ev.class(kind.name());
    let centred = matches!(vk, Kind::RMSprop { centered: true, .. });
    if centred {
        ev.class("RMSprop:centred");
    }
    ev.class(format!("step-pattern{}", case.step_pattern));
    let max_rank = case.slots.iter().map(|s| s.dims.len()).max().unwrap_or(1);
    let per_logical_steps: Vec<usize> = (0..case.lens.len()).map(|q| case.steps.iter().filter(|s| s.logical == q).count()).collect();
    ev.nontrivial = (kind.stateful() && per_logical_steps.iter().any(|c| *c >= 3)) || max_rank >= 2 || case.slots.len() >= 2;
    let gsig: Vec<u8> = case.steps.iter().map(|s| s.gclass).take(12).collect();
    let mut ranks: Vec<usize> = case.slots.iter().map(|s| s.dims.len()).collect();
    ranks.sort();
    ev.set_sig(&(kind.name(), format!("{:?}", kind), ranks, case.step_pattern, gsig, case.steps.len()));
    if case.slots.len() >= 2 {
        ev.class("interleaved-slots");
    }
    if max_rank >= 2 {
        ev.class("rank>=2");
    }

    let mut opt = kind.create();
    catch(|| opt.validate(build_vectors(case))).map_err(|p| Fail::new(format!("validate panicked: {p}")))?;
    if case.wseed % 5 == 0 {
        // what Network::set_optimizer does for the optimizer of a feedback block: a clone of the validated
        // optimizer is validated again (fresh state, hyper-parameters already defaulted) - the documented rule
        // must hold for that object as well
        let mut again = opt.clone();
        catch(|| again.validate(build_vectors(case))).map_err(|p| Fail::new(format!("second validate (on a clone) panicked: {p}")))?;
        opt = again;
        ev.class("validated twice (clone), as for feedback blocks");
    }

    // initial weights per logical parameter
    let init: Vec<Vec<f32>> = case.lens.iter().enumerate().map(|(q, n)| crate::tape::payload(case.wseed.wrapping_add(q as u32), 1, *n, 1.0)).collect();
    let mut lib_w: Vec<Tensor> = case.slots.iter().map(|s| tens::build(&s.dims, &init[s.logical])).collect();
    let mut st64: Vec<Vec<St<f64>>> = case.lens.iter().map(|n| vec![St::zero(); *n]).collect();
    let mut st32: Vec<Vec<St<f32>>> = case.lens.iter().map(|n| vec![St::zero(); *n]).collect();

    // slot-isolation twin: the first slot alone on a fresh optimizer
    let mut solo_opt = kind.create();
    solo_opt.validate(build_vectors(case));
    let mut solo_w = lib_w[0].clone();

    let mut worst = 0.0f64;
    let mut worst_rank = 0u64;
    let mut finite_required = true;
    for (si, step) in case.steps.iter().enumerate() {
        let q = step.logical;
        let n = case.lens[q];
        let g = gradient(n, step.gclass, if step.gclass == 1 { case.wseed } else { step.gseed }, si);
        let idxs: Vec<usize> = (0..case.slots.len()).filter(|i| case.slots[*i].logical == q).collect();
        if idxs.is_empty() {
            continue;
        }
        // all materialisations hold (nearly) the same numbers; the reference starts from the first one
        let w_prev = tens::flat(&lib_w[idxs[0]]);
        // reference step per element
        let mut w_ref = vec![0.0f64; n];
        let mut w_sh = vec![0.0f64; n];
        let mut ill = vec![false; n];
        for i in 0..n {
            let (a, illa) = ref_step::<f64>(&vk, &mut st64[q][i], w_prev[i], g[i], step.stepnr);
            let (b, illb) = ref_step::<f32>(&vk, &mut st32[q][i], w_prev[i], g[i], step.stepnr);
            w_ref[i] = a;
            w_sh[i] = b as f64;
            ill[i] = illa || illb;
        }
        // library updates, in a tape-chosen rotation
        let order: Vec<usize> = (0..idxs.len()).map(|j| idxs[(j + step.rot) % idxs.len()]).collect();
        for &i in &order {
            let s = &case.slots[i];
            let mut gt = tens::build(&s.dims, &g);
            let before = tens::flat(&lib_w[i]);
            let r = catch(|| opt.update(s.layer, s.filter, s.bias == 1, step.stepnr, &mut lib_w[i], &mut gt));
            if let Err(p) = r {
                fail!("{} update (slot layer {} filter {} bias {}, rank {}, step {}) panicked: {}", kind.name(), s.layer, s.filter, s.bias, s.dims.len(), si, p);
            }
            ensure!(tens::consistent(&lib_w[i]) && tens::data_dims(&lib_w[i]).as_deref() == Some(&s.dims[..]), "update changed the parameter's shape");
            let after = tens::flat(&lib_w[i]);
            // this slot's own previous values may differ from w_prev by a few ulp (rank copies)
            for e in 0..n {
                let delta_ref = w_ref[e] - w_prev[e] as f64;
                let want = before[e] as f64 + delta_ref;
                let got = after[e];
                if !got.is_finite() {
                    let ref_ok = want.is_finite() && want.abs() < 1e30 && w_sh[e].is_finite();
                    if ref_ok && finite_required {
                        let msg = format!(
                            "{} ({:?}): parameter became {:?} at step {} (stepnr {}), element {}; previous value {:e}, gradient {:e}, documented result {:e}",
                            kind.name(), vk, got, si, step.stepnr, e, before[e], g[e], want
                        );
                        if centred {
                            return Err(Fail::known(msg, "rmsprop_centered_negative_variance"));
                        }
                        fail!("{}", msg);
                    }
                    finite_required = false; // legitimately diverged: stop asserting on this history
                    continue;
                }
                if ill[e] || !want.is_finite() || want.abs() > 1e30 {
                    continue;
                }
                let cond = (w_ref[e] - w_sh[e]).abs();
                let tol = 16.0 * cond + 2e-5 * delta_ref.abs() + 2.0 * ulp_of(before[e]) + 2.0 * ulp_of(got) + 1e-42;
                let err = (got as f64 - want).abs();
                worst = worst.max(err / tol);
                ensure!(
                    err <= tol,
                    "{} ({:?}) rank {} slot: step {} (stepnr {}), element {}: library {:e}, documented update gives {:e} (previous {:e}, gradient {:e}; error {:e} > tolerance {:e})",
                    kind.name(), vk, s.dims.len(), si, step.stepnr, e, got, want, before[e], g[e], err, tol
                );
            }
            // slot isolation twin (first slot only)
            if i == 0 {
                let mut gt2 = tens::build(&s.dims, &g);
                solo_opt.update(s.layer, s.filter, s.bias == 1, step.stepnr, &mut solo_w, &mut gt2);
            }
        }
        // rank independence: all materialisations of this logical parameter agree
        let base = tens::flat(&lib_w[idxs[0]]);
        for &i in &idxs[1..] {
            let other = tens::flat(&lib_w[i]);
            for e in 0..n {
                if !base[e].is_finite() || !other[e].is_finite() {
                    continue;
                }
                let d = ulps32(base[e], other[e]);
                worst_rank = worst_rank.max(d);
                ensure!(
                    d <= 4 || (base[e] - other[e]).abs() <= 1e-6 * base[e].abs().max(1e-30) ,
                    "{}: the same numbers stored with ranks {} and {} diverged after step {}: {:e} vs {:e} (element {}, {} ulp)",
                    kind.name(), case.slots[idxs[0]].dims.len(), case.slots[i].dims.len(), si, base[e], other[e], e, d
                );
            }
        }
        // stop comparing histories that blew up numerically
        if base.iter().any(|v| !v.is_finite() || v.abs() > 1e30) {
            ev.discard = Some("diverged");
            break;
        }
    }
    // slot isolation: interleaved run == solo run, bitwise
    let a = tens::flat(&lib_w[0]);
    let b = tens::flat(&solo_w);
    if a.iter().all(|v| v.is_finite()) {
        if let Some(i) = tens::first_bit_diff(&a, &b) {
            fail!(
                "{}: slot (layer {}, filter {}, bias {}) ends at {:e} when updated interleaved with {} other slots but {:e} when updated alone (element {}): state leaks between slots",
                kind.name(), case.slots[0].layer, case.slots[0].filter, case.slots[0].bias, a[i], case.slots.len() - 1, b[i], i
            );
        }
    }
    ev.ratio("step_vs_documented", worst);
    ev.ratio("rank_ulps/4", worst_rank as f64 / 4.0);
    ev.units = case.steps.len() as u64;
    Ok(())
}

pub struct C03(pub Tier);

impl Prop for C03 {
    fn id(&self) -> &'static str {
        "C03"
    }
    fn tape_len(&self, t: Tier) -> usize {
        t.pick(64 + 60 * 4, 64 + 300 * 4)
    }
    fn cases(&self, t: Tier) -> usize {
        t.pick(150_000, 6_000_000)
    }
    fn rule(&self) -> String {
        "tape-decoded history: optimizer kind x hyper-parameters (valid ranges, exact 0 -> validate's default, None/Some(0)/Some(x) for decay and momentum, dampening, centred) x 1-2 logical parameters of flat length 1..16 (one history in 60: 128 x 130 elements), each materialised in up to 4 slots (layer, filter, bias) as vector / matrix / 3-D tensor, x 1..60 (thorough 300) update steps naming a logical parameter, a step number (constant 1, increasing, repeated, arbitrary; in one history of five offset by 100..5000)  and a gradient class (random, constant, sparse, sign-flipping, tiny 1e-20..1e-8, large 1e2..1e4); in one history of five the validated optimizer is cloned and the clone validated again before the first step (what Network::set_optimizer does for the optimizer of a feedback block). Oracles: documented equations in f64 with an f32 shadow for conditioning; rank independence <= 4 ulp; slot isolation bitwise against a solo run; finiteness. Non-trivial: >= 3 steps on one parameter with a stateful optimizer, or a rank >= 2 slot, or >= 2 interleaved slots. Distinct = (kind, hyper-parameters, rank multiset, step-number pattern, first 12 gradient classes, step count).".into()
    }
    fn assumptions(&self) -> Vec<String> {
        vec![
            "a hyper-parameter of exactly 0 is replaced by validate()'s default (0.1 / 0.9 / 0.001 / 0.999 / 1e-8 / 0.01 / 0.99), as observed".into(),
            "centred RMSprop is compared with the equations only where v - g_avg^2 >= 1e-3 v; elsewhere only finiteness is required".into(),
            "tolerance per step = 16 |f64 reference - f32 shadow reference| + 2e-5 |step| + 4 ulp(weight)".into(),
        ]
    }
    fn run_case(&self, tape: &[u32], ev: &mut CaseEv) -> CheckResult {
        check(&decode(tape, self.0), ev)
    }
    fn describe(&self, tape: &[u32]) -> Value {
        let c = decode(tape, self.0);
        json!({"kind": format!("{:?}", c.kind), "lens": c.lens, "slots": format!("{:?}", c.slots), "layout": c.layout,
               "steps": c.steps.iter().take(40).map(|s| format!("{:?}", s)).collect::<Vec<_>>(), "nsteps": c.steps.len()})
    }
}

pub fn run(eng: &Engine, replay_path: Option<&str>) -> i32 {
    let p = C03(eng.tier);
    if let Some(path) = replay_path {
        return replay(&p, eng, path);
    }
    standard_run(&p, eng)
}
