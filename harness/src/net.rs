//! Network specifications decoded from tapes, construction through the public API, parameter
//! access through the `verif` hooks, an independent shape model and an f64 reference network.

use crate::engine::catch;
use crate::refmodel::{self as rm, ActK, ConvCfg, ObjK};
use crate::tape::{payload, Tape};
use crate::tens;
use neurons::activation::Activation;
use neurons::feedback;
use neurons::network::{Layer, Network};
use neurons::objective;
use neurons::tensor::{Data, Shape, Tensor};
use neurons::verif;

#[derive(Clone, Copy, Debug, PartialEq, Eq, Hash)]
pub enum Acc {
    Add,
    Sub,
    Mul,
    Mean,
    Overwrite,
}
pub const ACCS: [Acc; 5] = [Acc::Add, Acc::Sub, Acc::Mul, Acc::Mean, Acc::Overwrite];

impl Acc {
    pub fn lib(&self) -> feedback::Accumulation {
        match self {
            Acc::Add => feedback::Accumulation::Add,
            Acc::Sub => feedback::Accumulation::Subtract,
            Acc::Mul => feedback::Accumulation::Multiply,
            Acc::Mean => feedback::Accumulation::Mean,
            Acc::Overwrite => feedback::Accumulation::Overwrite,
        }
    }
}

pub fn lib_act(a: ActK) -> Activation {
    match a {
        ActK::Linear => Activation::Linear,
        ActK::Tanh => Activation::Tanh,
        ActK::Sigmoid => Activation::Sigmoid,
        ActK::ReLU => Activation::ReLU,
        ActK::Leaky => Activation::LeakyReLU,
        ActK::Softmax => Activation::Softmax,
    }
}

pub fn lib_obj(o: ObjK) -> objective::Objective {
    match o {
        ObjK::AE => objective::Objective::AE,
        ObjK::MAE => objective::Objective::MAE,
        ObjK::MSE => objective::Objective::MSE,
        ObjK::RMSE => objective::Objective::RMSE,
        ObjK::CE => objective::Objective::CrossEntropy,
        ObjK::BCE => objective::Objective::BinaryCrossEntropy,
        ObjK::KL => objective::Objective::KLDivergence,
    }
}

/// Dropout rates are stored in per-mille so that specs are hashable.
#[derive(Clone, Debug, PartialEq, Eq, Hash)]
pub enum LayerSpec {
    Dense { out: usize, act: ActK, bias: bool, dropout: Option<u32> },
    Conv { cfg: ConvCfg, act: ActK, dropout: Option<u32> },
    Deconv { cfg: ConvCfg, act: ActK, dropout: Option<u32> },
    Pool { kernel: (usize, usize), stride: (usize, usize) },
    Feedback { layers: Vec<LayerSpec>, loops: usize, inskips: bool, outskips: bool, acc: Acc },
}

impl LayerSpec {
    pub fn kind(&self) -> &'static str {
        match self {
            LayerSpec::Dense { .. } => "dense",
            LayerSpec::Conv { .. } => "conv",
            LayerSpec::Deconv { .. } => "deconv",
            LayerSpec::Pool { .. } => "pool",
            LayerSpec::Feedback { .. } => "feedback",
        }
    }
    pub fn is_spatial(&self) -> bool {
        match self {
            LayerSpec::Dense { .. } => false,
            LayerSpec::Feedback { layers, .. } => layers[0].is_spatial(),
            _ => true,
        }
    }
    pub fn has_dropout(&self) -> bool {
        match self {
            LayerSpec::Dense { dropout, .. } | LayerSpec::Conv { dropout, .. } | LayerSpec::Deconv { dropout, .. } => dropout.is_some(),
            LayerSpec::Pool { .. } => false,
            LayerSpec::Feedback { layers, .. } => layers.iter().any(|l| l.has_dropout()),
        }
    }
    pub fn without_dropout(&self) -> LayerSpec {
        let mut c = self.clone();
        match &mut c {
            LayerSpec::Dense { dropout, .. } | LayerSpec::Conv { dropout, .. } | LayerSpec::Deconv { dropout, .. } => *dropout = None,
            LayerSpec::Pool { .. } => {}
            LayerSpec::Feedback { layers, .. } => {
                for l in layers.iter_mut() {
                    *l = l.without_dropout();
                }
            }
        }
        c
    }
}

fn drop_rate(d: &Option<u32>) -> Option<f32> {
    d.map(|p| p as f32 / 1000.0)
}

#[derive(Clone, Debug, PartialEq, Eq, Hash)]
pub struct NetSpec {
    pub input: Vec<usize>, // [n] or [c, h, w]
    pub layers: Vec<LayerSpec>,
}

pub fn count(d: &[usize]) -> usize {
    d.iter().product()
}

pub fn isqrt_exact(n: usize) -> Option<usize> {
    let r = (n as f64).sqrt().round() as usize;
    for c in [r.saturating_sub(1), r, r + 1] {
        if c * c == n {
            return Some(c);
        }
    }
    None
}

/// Independent shape model: the shape a layer produces for an input shape, by the standard
/// formulas. `None` = the request is not valid.
pub fn model_out(input: &[usize], l: &LayerSpec) -> Option<Vec<usize>> {
    let spatial_in = |input: &[usize]| -> Option<(usize, usize, usize)> {
        match input.len() {
            3 => Some((input[0], input[1], input[2])),
            1 => isqrt_exact(input[0]).map(|r| (1, r, r)),
            _ => None,
        }
    };
    match l {
        LayerSpec::Dense { out, .. } => {
            if *out == 0 {
                None
            } else {
                Some(vec![*out])
            }
        }
        LayerSpec::Conv { cfg, .. } => {
            let (_, h, w) = spatial_in(input)?;
            if cfg.filters == 0 {
                return None;
            }
            let oh = rm::conv_out(h, cfg.kernel.0, cfg.stride.0, cfg.padding.0, cfg.dilation.0)?;
            let ow = rm::conv_out(w, cfg.kernel.1, cfg.stride.1, cfg.padding.1, cfg.dilation.1)?;
            Some(vec![cfg.filters, oh, ow])
        }
        LayerSpec::Deconv { cfg, .. } => {
            let (_, h, w) = spatial_in(input)?;
            if cfg.filters == 0 {
                return None;
            }
            let oh = rm::deconv_out(h, cfg.kernel.0, cfg.stride.0, cfg.padding.0)?;
            let ow = rm::deconv_out(w, cfg.kernel.1, cfg.stride.1, cfg.padding.1)?;
            Some(vec![cfg.filters, oh, ow])
        }
        LayerSpec::Pool { kernel, stride } => {
            let (c, h, w) = spatial_in(input)?;
            Some(vec![c, rm::pool_out(h, kernel.0, stride.0)?, rm::pool_out(w, kernel.1, stride.1)?])
        }
        LayerSpec::Feedback { layers, loops, .. } => {
            if *loops == 0 || layers.is_empty() {
                return None;
            }
            let mut cur = input.to_vec();
            for l in layers {
                cur = model_out(&cur, l)?;
            }
            // the block's output shape must equal its input shape (as the first layer reads it)
            let first_in = if layers[0].is_spatial() { let (c, h, w) = spatial_in(input)?; vec![c, h, w] } else { vec![count(input)] };
            if cur == first_in {
                Some(cur)
            } else {
                None
            }
        }
    }
}

/// Add one layer through the public API.
pub fn add_layer(net: &mut Network, l: &LayerSpec) {
    match l {
        LayerSpec::Dense { out, act, bias, dropout } => net.dense(*out, lib_act(*act), *bias, drop_rate(dropout)),
        LayerSpec::Conv { cfg, act, dropout } => net.convolution(cfg.filters, cfg.kernel, cfg.stride, cfg.padding, cfg.dilation, lib_act(*act), drop_rate(dropout)),
        LayerSpec::Deconv { cfg, act, dropout } => net.deconvolution(cfg.filters, cfg.kernel, cfg.stride, cfg.padding, lib_act(*act), drop_rate(dropout)),
        LayerSpec::Pool { kernel, stride } => net.maxpool(*kernel, *stride),
        LayerSpec::Feedback { layers, loops, inskips, outskips, acc } => {
            let ls: Vec<feedback::Layer> = layers
                .iter()
                .map(|l| match l {
                    LayerSpec::Dense { out, act, bias, dropout } => feedback::Layer::Dense(*out, lib_act(*act), *bias, drop_rate(dropout)),
                    LayerSpec::Conv { cfg, act, dropout } => feedback::Layer::Convolution(cfg.filters, lib_act(*act), cfg.kernel, cfg.stride, cfg.padding, cfg.dilation, drop_rate(dropout)),
                    LayerSpec::Deconv { cfg, act, dropout } => feedback::Layer::Deconvolution(cfg.filters, lib_act(*act), cfg.kernel, cfg.stride, cfg.padding, drop_rate(dropout)),
                    LayerSpec::Pool { kernel, stride } => feedback::Layer::Maxpool(*kernel, *stride),
                    LayerSpec::Feedback { .. } => panic!("nested feedback"),
                })
                .collect();
            net.feedback(ls, *loops, *inskips, *outskips, acc.lib());
        }
    }
}

pub fn input_shape(d: &[usize]) -> Shape {
    if d.len() == 1 {
        Shape::Single(d[0])
    } else {
        Shape::Triple(d[0], d[1], d[2])
    }
}

pub fn build(spec: &NetSpec) -> Result<Network, String> {
    catch(|| {
        let mut net = Network::new(input_shape(&spec.input));
        for l in &spec.layers {
            add_layer(&mut net, l);
        }
        net
    })
}

/// Input tensor in the network's own representation.
pub fn input_tensor(d: &[usize], v: &[f32]) -> Tensor {
    tens::build(d, v)
}

// ---------------------------------------------------------------------------------------------
// Parameters

#[derive(Clone, Copy, Debug, PartialEq, Eq, Hash, PartialOrd, Ord)]
pub struct PRef {
    pub layer: usize,
    /// index of the unrolled inner layer for feedback blocks
    pub inner: Option<usize>,
    pub tensor: usize,
}

fn for_each_plain_layer<'a>(net: &'a Network, mut f: impl FnMut(usize, Option<usize>, &'a Layer)) {
    for (i, l) in net.layers.iter().enumerate() {
        match l {
            Layer::Feedback(fb) => {
                for (j, il) in fb.layers.iter().enumerate() {
                    f(i, Some(j), il);
                }
            }
            other => f(i, None, other),
        }
    }
}

pub fn collect_params(net: &Network) -> Vec<(PRef, Tensor)> {
    let mut out = Vec::new();
    for_each_plain_layer(net, |i, inner, l| {
        for (k, t) in verif::layer_params(l).into_iter().enumerate() {
            out.push((PRef { layer: i, inner, tensor: k }, t));
        }
    });
    out
}

pub fn apply_params(net: &mut Network, params: &[(PRef, Tensor)]) {
    for (i, l) in net.layers.iter_mut().enumerate() {
        match l {
            Layer::Feedback(fb) => {
                for (j, il) in fb.layers.iter_mut().enumerate() {
                    let ps: Vec<Tensor> = params.iter().filter(|(r, _)| r.layer == i && r.inner == Some(j)).map(|(_, t)| t.clone()).collect();
                    if !ps.is_empty() {
                        verif::set_layer_params(il, ps);
                    }
                }
            }
            other => {
                let ps: Vec<Tensor> = params.iter().filter(|(r, _)| r.layer == i && r.inner.is_none()).map(|(_, t)| t.clone()).collect();
                if !ps.is_empty() {
                    verif::set_layer_params(other, ps);
                }
            }
        }
    }
}

pub fn tensor_dims(t: &Tensor) -> Vec<usize> {
    tens::data_dims(t).expect("rectangular parameter tensor")
}

/// Deterministic parameters: a pure function of (seed, mode); feedback copies are tied.
pub fn seeded_params(net: &Network, spec: &NetSpec, seed: u32, mode: u32, scale: f32) -> Vec<(PRef, Tensor)> {
    let cur = collect_params(net);
    cur.iter()
        .map(|(r, t)| {
            let dims = tensor_dims(t);
            let n = count(&dims);
            // tied copies: the seed depends on the position inside the block, not on the repetition
            let pos = match (&spec.layers[r.layer], r.inner) {
                (LayerSpec::Feedback { layers, .. }, Some(j)) => j % layers.len(),
                _ => 0,
            };
            let s = seed.wrapping_mul(2654435761).wrapping_add((r.layer as u32) * 1009 + (pos as u32) * 101 + r.tensor as u32 * 13);
            // keep pre-activations O(1): scale by 1/sqrt(fan-in)
            let fan = match dims.len() {
                2 => dims[1],
                3 => dims[0] * dims[1] * dims[2],
                _ => 1,
            };
            let sc = scale / (fan as f32).sqrt().max(1.0);
            (*r, tens::build(&dims, &payload(s, mode, n, sc)))
        })
        .collect()
}

pub fn params_flat(ps: &[(PRef, Tensor)]) -> Vec<Vec<f32>> {
    ps.iter().map(|(_, t)| tens::flat(t)).collect()
}

// ---------------------------------------------------------------------------------------------
// Reference network (f64). Supports plain sequences, feedback blocks without internal skips and
// additive skip connections between layer inputs.

pub struct RefLayerOut {
    pub pre: Vec<f64>,
    pub post: Vec<f64>,
    pub dims: Vec<usize>,
    pub mag: Vec<f64>,
    /// smallest |pre-activation| over ReLU-family units (kink margin), +inf otherwise
    pub kink: f64,
    /// smallest top-2 gap over max-pool windows (tie margin), +inf otherwise
    pub tie: f64,
}

pub fn spatial_dims(d: &[usize]) -> (usize, usize, usize) {
    match d.len() {
        3 => (d[0], d[1], d[2]),
        1 => {
            let r = isqrt_exact(d[0]).expect("square");
            (1, r, r)
        }
        _ => panic!("dims"),
    }
}

/// One plain layer in f64. `params` are this layer's tensors in hook order, flattened.
pub fn ref_layer(l: &LayerSpec, params: &[Vec<f64>], x: &[f64], xd: &[usize]) -> RefLayerOut {
    match l {
        LayerSpec::Dense { out, act, bias, .. } => {
            let (pre, mag) = rm::dense(&params[0], if *bias { Some(&params[1]) } else { None }, x, *out);
            let post = rm::act(*act, &pre);
            let kink = if matches!(act, ActK::ReLU | ActK::Leaky) { pre.iter().fold(f64::INFINITY, |a, v| a.min(v.abs())) } else { f64::INFINITY };
            RefLayerOut { pre, post, dims: vec![*out], mag, kink, tie: f64::INFINITY }
        }
        LayerSpec::Conv { cfg, act, .. } | LayerSpec::Deconv { cfg, act, .. } => {
            let d = spatial_dims(xd);
            let k: Vec<f64> = params.iter().flat_map(|p| p.iter().cloned()).collect();
            let (pre, mag, od) = if matches!(l, LayerSpec::Conv { .. }) { rm::conv(x, d, &k, cfg) } else { rm::deconv(x, d, &k, cfg) };
            let post = rm::act(*act, &pre);
            let kink = if matches!(act, ActK::ReLU | ActK::Leaky) { pre.iter().fold(f64::INFINITY, |a, v| a.min(v.abs())) } else { f64::INFINITY };
            RefLayerOut { pre, post, dims: vec![od.0, od.1, od.2], mag, kink, tie: f64::INFINITY }
        }
        LayerSpec::Pool { kernel, stride } => {
            let d = spatial_dims(xd);
            let (y, od, gap) = rm::maxpool(x, d, *kernel, *stride);
            RefLayerOut { pre: y.clone(), post: y, dims: vec![od.0, od.1, od.2], mag: vec![], kink: f64::INFINITY, tie: gap }
        }
        LayerSpec::Feedback { .. } => panic!("ref_layer on feedback"),
    }
}

pub struct RefForward {
    /// post-activation output of every top-level layer
    pub outs: Vec<Vec<f64>>,
    pub out_dims: Vec<Vec<usize>>,
    pub kink: f64,
    pub tie: f64,
}

/// Parameters addressed like `collect_params`, as f64.
pub type RefParams = Vec<(PRef, Vec<f64>)>;

pub fn to_ref_params(ps: &[(PRef, Tensor)]) -> RefParams {
    ps.iter().map(|(r, t)| (*r, tens::flat(t).iter().map(|v| *v as f64).collect())).collect()
}

fn layer_params_of(ps: &RefParams, layer: usize, inner: Option<usize>) -> Vec<Vec<f64>> {
    let mut v: Vec<(usize, Vec<f64>)> = ps.iter().filter(|(r, _)| r.layer == layer && r.inner == inner).map(|(r, d)| (r.tensor, d.clone())).collect();
    v.sort_by_key(|x| x.0);
    v.into_iter().map(|x| x.1).collect()
}

/// Forward pass of the reference network. `connects` are additive skip connections (a -> b):
/// layer b's input gets the input of layer a added (reshaped: same row-major sequence).
pub fn ref_forward(spec: &NetSpec, ps: &RefParams, x: &[f64], connects: &[(usize, usize)]) -> RefForward {
    let mut inputs: Vec<Vec<f64>> = Vec::new(); // input fed to each layer (before skip accumulation), like `activated`
    let mut cur = x.to_vec();
    let mut cd = spec.input.clone();
    let mut outs = Vec::new();
    let mut out_dims = Vec::new();
    let mut kink = f64::INFINITY;
    let mut tie = f64::INFINITY;
    for (i, l) in spec.layers.iter().enumerate() {
        inputs.push(cur.clone());
        let mut xin = cur.clone();
        for (a, b) in connects {
            if *b == i {
                for (u, v) in xin.iter_mut().zip(inputs[*a].iter()) {
                    *u += *v;
                }
            }
        }
        match l {
            LayerSpec::Feedback { layers, loops, inskips, outskips, .. } => {
                assert!(!inskips && !outskips, "reference network: feedback skips unsupported");
                let mut y = xin;
                let mut yd = cd.clone();
                for rep in 0..*loops {
                    for (j, il) in layers.iter().enumerate() {
                        let p = layer_params_of(ps, i, Some(rep * layers.len() + j));
                        let o = ref_layer(il, &p, &y, &yd);
                        kink = kink.min(o.kink);
                        tie = tie.min(o.tie);
                        y = o.post;
                        yd = o.dims;
                    }
                }
                cur = y;
                cd = yd;
            }
            _ => {
                let p = layer_params_of(ps, i, None);
                let o = ref_layer(l, &p, &xin, &cd);
                kink = kink.min(o.kink);
                tie = tie.min(o.tie);
                cur = o.post;
                cd = o.dims;
            }
        }
        outs.push(cur.clone());
        out_dims.push(cd.clone());
    }
    RefForward { outs, out_dims, kink, tie }
}

// ---------------------------------------------------------------------------------------------
// Library gradients through the `verif` backward wrapper, addressed like `collect_params`.

pub fn grad_tensors_for_layer(l: &Layer, wg: &Tensor, bg: &Option<Tensor>) -> Vec<Tensor> {
    match l {
        Layer::Dense(_) => {
            let mut v = vec![wg.clone()];
            if let Some(b) = bg {
                v.push(b.clone());
            }
            v
        }
        Layer::Convolution(_) | Layer::Deconvolution(_) => wg.quadruple_to_vec_triple(),
        Layer::Maxpool(_) => vec![],
        Layer::Feedback(_) => panic!("feedback handled separately"),
    }
}

/// Returns (loss, gradients per parameter tensor) for one sample, or the panic message.
pub fn lib_gradients(net: &Network, obj: &objective::Function, x: &Tensor, target: &Tensor) -> Result<(f32, Vec<(PRef, Tensor)>), String> {
    catch(|| {
        let (pre, act, maxp, fbs) = net.forward(x);
        let (loss, g) = obj.loss(act.last().unwrap(), target);
        let (wg, bg) = net.verif_backward(g, &pre, &act, &maxp, fbs);
        let n = net.layers.len();
        let mut out = Vec::new();
        for (i, l) in net.layers.iter().enumerate() {
            let ri = n - 1 - i; // backward returns the last layer first
            match l {
                Layer::Feedback(fb) => {
                    let wgs = wg[ri].unnested();
                    let bgs = bg[ri].as_ref().unwrap().unnestedoptional();
                    let m = fb.layers.len();
                    for (j, il) in fb.layers.iter().enumerate() {
                        let rj = m - 1 - j;
                        for (k, t) in grad_tensors_for_layer(il, &wgs[rj], &bgs[rj]).into_iter().enumerate() {
                            out.push((PRef { layer: i, inner: Some(j), tensor: k }, t));
                        }
                    }
                }
                other => {
                    for (k, t) in grad_tensors_for_layer(other, &wg[ri], &bg[ri]).into_iter().enumerate() {
                        out.push((PRef { layer: i, inner: None, tensor: k }, t));
                    }
                }
            }
        }
        (loss, out)
    })
}

/// Like `lib_gradients`, but back-propagates a given output gradient `g0` instead of the objective's.
pub fn lib_gradients_g0(net: &Network, x: &Tensor, g0: &Tensor) -> Result<Vec<(PRef, Tensor)>, String> {
    struct Frozen<'a>(&'a Tensor);
    let f = Frozen(g0);
    catch(|| {
        let (pre, act, maxp, fbs) = net.forward(x);
        let g = if act.last().unwrap().shape == f.0.shape { f.0.clone() } else { f.0.clone().reshape(act.last().unwrap().shape.clone()) };
        let (wg, bg) = net.verif_backward(g, &pre, &act, &maxp, fbs);
        let n = net.layers.len();
        let mut out = Vec::new();
        for (i, l) in net.layers.iter().enumerate() {
            let ri = n - 1 - i;
            match l {
                Layer::Feedback(fb) => {
                    let wgs = wg[ri].unnested();
                    let bgs = bg[ri].as_ref().unwrap().unnestedoptional();
                    let m = fb.layers.len();
                    for (j, il) in fb.layers.iter().enumerate() {
                        let rj = m - 1 - j;
                        for (k, t) in grad_tensors_for_layer(il, &wgs[rj], &bgs[rj]).into_iter().enumerate() {
                            out.push((PRef { layer: i, inner: Some(j), tensor: k }, t));
                        }
                    }
                }
                other => {
                    for (k, t) in grad_tensors_for_layer(other, &wg[ri], &bg[ri]).into_iter().enumerate() {
                        out.push((PRef { layer: i, inner: None, tensor: k }, t));
                    }
                }
            }
        }
        out
    })
}

// ---------------------------------------------------------------------------------------------
// Generators (construction, not rejection)

pub struct GenOpts {
    pub max_layers: usize,
    pub max_hw: usize,
    pub max_c: usize,
    pub allow_feedback: bool,
    pub allow_dropout: bool,
    pub allow_pool: bool,
    pub softmax_last: bool,
    pub acts: &'static [ActK],
    pub end_dense: bool,
    pub max_dense: usize,
    pub max_kernel: usize,
    pub max_stride: usize,
    pub max_dilation: usize,
}

impl Default for GenOpts {
    fn default() -> Self {
        GenOpts {
            max_layers: 4,
            max_hw: 7,
            max_c: 3,
            allow_feedback: true,
            allow_dropout: false,
            allow_pool: true,
            softmax_last: false,
            acts: &rm::ELEMENTWISE,
            end_dense: false,
            max_dense: 8,
            max_kernel: 3,
            max_stride: 3,
            max_dilation: 2,
        }
    }
}

pub fn gen_input(t: &mut Tape, o: &GenOpts) -> Vec<usize> {
    if t.chance(2, 3) {
        vec![t.usize(1, o.max_c), t.usize(1, o.max_hw), t.usize(1, o.max_hw)]
    } else {
        vec![t.usize(1, 8)]
    }
}

fn gen_dropout(t: &mut Tape, o: &GenOpts) -> Option<u32> {
    if o.allow_dropout && t.chance(1, 2) {
        Some(t.usize(50, 950) as u32)
    } else {
        None
    }
}

pub fn gen_conv(t: &mut Tape, h: usize, w: usize, o: &GenOpts) -> ConvCfg {
    let filters = t.usize(1, 3);
    let ph = t.usize(0, 2);
    let pw = t.usize(0, 2);
    let dh = t.usize(1, o.max_dilation);
    let dw = t.usize(1, o.max_dilation);
    // largest kernel whose effective extent fits the padded input
    let kmax = |n: usize, p: usize, d: usize| -> usize { (((n + 2 * p - 1) / d) + 1).min(o.max_kernel).max(1) };
    let kh = t.usize(1, kmax(h, ph, dh));
    let kw = t.usize(1, kmax(w, pw, dw));
    let sh = t.usize(1, o.max_stride);
    let sw = t.usize(1, o.max_stride);
    ConvCfg { filters, kernel: (kh, kw), stride: (sh, sw), padding: (ph, pw), dilation: (dh, dw) }
}

pub fn gen_deconv(t: &mut Tape, h: usize, w: usize, o: &GenOpts) -> ConvCfg {
    let filters = t.usize(1, 3);
    let kh = t.usize(1, o.max_kernel);
    let kw = t.usize(1, o.max_kernel);
    let sh = t.usize(1, o.max_stride);
    let sw = t.usize(1, o.max_stride);
    // padding such that the output stays >= 1: (n-1)s + k - 2p >= 1
    let pmax = |n: usize, k: usize, s: usize| -> usize { (((n - 1) * s + k - 1) / 2).min(2) };
    let ph = t.usize(0, pmax(h, kh, sh));
    let pw = t.usize(0, pmax(w, kw, sw));
    ConvCfg { filters, kernel: (kh, kw), stride: (sh, sw), padding: (ph, pw), dilation: (1, 1) }
}

pub fn gen_act(t: &mut Tape, o: &GenOpts) -> ActK {
    o.acts[t.pick(o.acts.len())]
}

/// A layer that fits `cur`. `first` = no layer precedes it (flat input cannot start spatial).
pub fn gen_layer(t: &mut Tape, cur: &[usize], first: bool, o: &GenOpts, allow_fb: bool) -> LayerSpec {
    let n = count(cur);
    let spatial_ok = cur.len() == 3 || (!first && isqrt_exact(n).is_some() && n <= o.max_hw * o.max_hw);
    let dense_ok = !(first && cur.len() == 3);
    // choice list
    let mut kinds: Vec<u8> = Vec::new();
    if dense_ok {
        kinds.push(0);
    }
    if spatial_ok {
        kinds.push(1);
        kinds.push(2);
        if o.allow_pool {
            kinds.push(3);
        }
    }
    if allow_fb && o.allow_feedback && (cur.len() == 3 || dense_ok) {
        kinds.push(4);
    }
    let k = kinds[t.pick(kinds.len())];
    let (_, h, w) = if spatial_ok { spatial_dims(cur) } else { (0, 0, 0) };
    match k {
        0 => LayerSpec::Dense { out: t.usize(1, o.max_dense), act: gen_act(t, o), bias: t.bool(), dropout: gen_dropout(t, o) },
        1 => LayerSpec::Conv { cfg: gen_conv(t, h, w, o), act: gen_act(t, o), dropout: gen_dropout(t, o) },
        2 => {
            // keep deconvolution outputs bounded
            let mut cfg = gen_deconv(t, h, w, o);
            let lim = 2 * o.max_hw;
            while rm::deconv_out(h, cfg.kernel.0, cfg.stride.0, cfg.padding.0).unwrap() > lim && cfg.stride.0 > 1 {
                cfg.stride.0 -= 1;
            }
            while rm::deconv_out(w, cfg.kernel.1, cfg.stride.1, cfg.padding.1).unwrap() > lim && cfg.stride.1 > 1 {
                cfg.stride.1 -= 1;
            }
            LayerSpec::Deconv { cfg, act: gen_act(t, o), dropout: gen_dropout(t, o) }
        }
        3 => {
            let kh = t.usize(1, h.min(3));
            let kw = t.usize(1, w.min(3));
            LayerSpec::Pool { kernel: (kh, kw), stride: (t.usize(1, kh + 1), t.usize(1, kw + 1)) }
        }
        _ => gen_feedback(t, cur, o, false, false),
    }
}

/// Shape-preserving block: flat (dense n -> m -> n) or spatial (same-size conv / deconv).
pub fn gen_feedback(t: &mut Tape, cur: &[usize], o: &GenOpts, skips: bool, any_acc: bool) -> LayerSpec {
    let loops = t.usize(1, 3);
    let two = t.bool();
    let (inskips, outskips) = if skips { (t.bool(), t.bool()) } else { (false, false) };
    let acc = if any_acc { ACCS[t.pick(5)] } else { Acc::Mean };
    let layers = if cur.len() == 1 {
        let n = cur[0];
        if two {
            let m = t.usize(1, o.max_dense);
            vec![
                LayerSpec::Dense { out: m, act: gen_act(t, o), bias: t.bool(), dropout: gen_dropout(t, o) },
                LayerSpec::Dense { out: n, act: gen_act(t, o), bias: t.bool(), dropout: gen_dropout(t, o) },
            ]
        } else {
            vec![LayerSpec::Dense { out: n, act: gen_act(t, o), bias: t.bool(), dropout: gen_dropout(t, o) }]
        }
    } else {
        let c = cur[0];
        let n = if two { 2 } else { 1 };
        (0..n)
            .map(|i| {
                let filters = if i == n - 1 { c } else { t.usize(1, 3) };
                gen_same_size(t, filters, cur[1], cur[2], o)
            })
            .collect()
    };
    LayerSpec::Feedback { layers, loops, inskips, outskips, acc }
}

/// A convolution or deconvolution that keeps height and width: stride 1, odd kernel k (1 or 3, one time in
/// eight 5), padding d(k-1)/2; convolutions with dilation d = 2 on an axis one time in four.
pub fn gen_same_size(t: &mut Tape, filters: usize, h: usize, w: usize, o: &GenOpts) -> LayerSpec {
    let kh = if h >= 1 && t.bool() { if t.chance(1, 8) { 5 } else { 3 } } else { 1 };
    let kw = if w >= 1 && t.bool() { if t.chance(1, 8) { 5 } else { 3 } } else { 1 };
    if t.bool() {
        let dh = if t.chance(1, 4) { 2 } else { 1 };
        let dw = if t.chance(1, 4) { 2 } else { 1 };
        let cfg = ConvCfg { filters, kernel: (kh, kw), stride: (1, 1), padding: (dh * (kh - 1) / 2, dw * (kw - 1) / 2), dilation: (dh, dw) };
        LayerSpec::Conv { cfg, act: gen_act(t, o), dropout: gen_dropout(t, o) }
    } else {
        let cfg = ConvCfg { filters, kernel: (kh, kw), stride: (1, 1), padding: ((kh - 1) / 2, (kw - 1) / 2), dilation: (1, 1) };
        LayerSpec::Deconv { cfg, act: gen_act(t, o), dropout: gen_dropout(t, o) }
    }
}

pub fn gen_net(t: &mut Tape, o: &GenOpts) -> NetSpec {
    let input = gen_input(t, o);
    let nl = t.usize(1, o.max_layers);
    let mut layers = Vec::new();
    let mut cur = input.clone();
    for i in 0..nl {
        let l = gen_layer(t, &cur, i == 0, o, true);
        cur = model_out(&cur, &l).unwrap_or_else(|| panic!("generator produced an invalid layer {:?} for {:?}", l, cur));
        layers.push(l);
    }
    if o.end_dense && !matches!(layers.last(), Some(LayerSpec::Dense { .. })) {
        let l = LayerSpec::Dense { out: t.usize(1, o.max_dense), act: gen_act(t, o), bias: t.bool(), dropout: None };
        layers.push(l);
    }
    if o.softmax_last {
        if let Some(LayerSpec::Dense { act, .. }) = layers.last_mut() {
            *act = ActK::Softmax;
        }
    }
    NetSpec { input, layers }
}

pub fn final_dims(spec: &NetSpec) -> Vec<usize> {
    let mut cur = spec.input.clone();
    for l in &spec.layers {
        cur = model_out(&cur, l).expect("valid spec");
    }
    cur
}

/// Flatten a library tensor holding an index tensor or numbers; used for outputs.
pub fn out_flat(t: &Tensor) -> Vec<f32> {
    match &t.data {
        Data::Single(_) | Data::Triple(_) | Data::Double(_) | Data::Quadruple(_) => tens::flat(t),
        _ => panic!("unexpected output tensor"),
    }
}

/// The library's own public single-layer forward: (pre-activation, output handed to the next layer).
pub fn layer_forward(l: &Layer, x: &Tensor) -> (Tensor, Tensor) {
    match l {
        Layer::Dense(d) => d.forward(x),
        Layer::Convolution(c) => c.forward(x),
        Layer::Deconvolution(c) => c.forward(x),
        Layer::Maxpool(m) => {
            let (pre, post, _) = m.forward(x);
            (pre, post)
        }
        Layer::Feedback(f) => {
            let (pre, post, _, _, _) = f.forward(x);
            (pre, post)
        }
    }
}

/// Black-box parse of the `in -> out` line that the network's Display text announces for every
/// top-level layer.
pub fn announced_shapes(net: &Network) -> Result<Vec<(Vec<usize>, Vec<usize>)>, String> {
    let text = format!("{}", net);
    let mut out = Vec::new();
    let mut want_next = false;
    for line in text.lines() {
        let tabs = line.chars().take_while(|c| *c == '\t').count();
        let body = line.trim_start_matches('\t');
        if tabs == 2 && body.split(':').next().map(|s| s.chars().all(|c| c.is_ascii_digit()) && !s.is_empty()).unwrap_or(false) && body.contains(": ") {
            want_next = true;
            continue;
        }
        if want_next && tabs == 3 && body.contains(" -> ") {
            let parts: Vec<&str> = body.split(" -> ").collect();
            let parse = |s: &str| -> Result<Vec<usize>, String> { s.trim().split('x').map(|p| p.parse::<usize>().map_err(|e| format!("cannot parse shape '{}': {}", s, e))).collect() };
            out.push((parse(parts[0])?, parse(parts[1])?));
            want_next = false;
        }
    }
    if out.len() != net.layers.len() {
        return Err(format!("parsed {} announced shapes for {} layers from:\n{}", out.len(), net.layers.len(), text));
    }
    Ok(out)
}
