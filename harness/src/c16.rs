//! C16 — skip connections combine source and target inputs as configured.

use crate::c01;
use crate::c11::accumulate;
use crate::engine::*;
use crate::fcmp::ulps32;
use crate::net::*;
use crate::refmodel::{ActK, ObjK};
use crate::tape::{payload, Tape};
use crate::tens;
use crate::fail;
use neurons::network::Network;
use neurons::tensor::Tensor;
use serde_json::{json, Value};

#[derive(Debug, Clone)]
struct Case {
    spec: NetSpec,
    calls: Vec<(usize, usize)>,
    acc: Acc,
    wseed: u32,
    xseed: u32,
    tseed: u32,
    gradient: bool,
    obj: ObjK,
}

/// Element count of the input read by each layer (index = layer), plus the network output.
fn input_counts(spec: &NetSpec) -> Vec<usize> {
    let mut v = Vec::new();
    let mut cur = spec.input.clone();
    for l in &spec.layers {
        v.push(count(&cur));
        cur = model_out(&cur, l).unwrap();
    }
    v
}

fn decode(tape: &[u32]) -> Case {
    let mut t = Tape::new(tape);
    let o = GenOpts { acts: &[ActK::Linear, ActK::Tanh, ActK::Sigmoid, ActK::Leaky], max_hw: 4, max_c: 2, allow_feedback: false, allow_pool: true, ..GenOpts::default() };
    // Build 2-5 layers, steering towards repeated element counts so that connections exist:
    // with probability 1/2 a layer is forced to reproduce the element count of an earlier input.
    // one case in 40: a flat network whose tensors hold 65..300 elements throughout (accumulations over long vectors)
    let wide = t.chance(1, 100);
    let input = if wide { vec![t.usize(65, 300)] } else if t.bool() { vec![t.usize(1, 2), t.usize(1, 4), t.usize(1, 4)] } else { vec![t.usize(1, 8)] };
    let nl = if wide { t.usize(2, 3) } else { t.usize(2, 5) };
    let mut layers: Vec<LayerSpec> = Vec::new();
    let mut cur = input.clone();
    let mut counts = vec![count(&cur)];
    for i in 0..nl {
        let want_repeat = t.bool() || wide;
        let l = if want_repeat && !(i == 0 && cur.len() == 3) {
            // dense layer reproducing an earlier element count
            let n = counts[t.pick(counts.len())];
            LayerSpec::Dense { out: n, act: gen_act(&mut t, &o), bias: t.bool(), dropout: None }
        } else if want_repeat && cur.len() == 3 {
            gen_same_size(&mut t, cur[0], cur[1], cur[2], &o)
        } else {
            gen_layer(&mut t, &cur, i == 0, &o, false)
        };
        cur = model_out(&cur, &l).unwrap();
        counts.push(count(&cur));
        layers.push(l);
    }
    let spec = NetSpec { input, layers };
    let ic = input_counts(&spec);
    // candidate pairs a <= b with equal element counts (maxpool cannot be a source: the library refuses it)
    let mut pairs: Vec<(usize, usize)> = Vec::new();
    for a in 0..ic.len() {
        for b in a..ic.len() {
            if ic[a] == ic[b] && !matches!(spec.layers[a], LayerSpec::Pool { .. }) {
                pairs.push((a, b));
            }
        }
    }
    let ncalls = t.usize(1, 3);
    let proper: Vec<(usize, usize)> = pairs.iter().cloned().filter(|(a, b)| a < b).collect();
    let calls: Vec<(usize, usize)> = if pairs.is_empty() {
        vec![]
    } else {
        (0..ncalls)
            .map(|i| {
                let (a, b) = if !proper.is_empty() && t.chance(4, 5) { proper[t.pick(proper.len())] } else { pairs[t.pick(pairs.len())] };
                // one later call in eight names its layers in decreasing order (outside a <= b: the library refuses it;
                // whatever it does, an earlier connection must not silently disappear)
                if i > 0 && a < b && t.chance(1, 8) { (b, a) } else { (a, b) }
            })
            .collect()
    };
    let acc = ACCS[t.pick(5)];
    let gradient = t.chance(1, 3) && spec.input.iter().product::<usize>() <= 130; // (the derivative oracle is quadratic in the width)
    Case { spec, calls, acc: if gradient { Acc::Add } else { acc }, wseed: t.raw(), xseed: t.raw(), tseed: t.raw(), gradient, obj: [ObjK::MSE, ObjK::AE, ObjK::RMSE][t.pick(3)] }
}

fn check(case: &Case, ev: &mut CaseEv, tier: Tier) -> CheckResult {
    let spec = &case.spec;
    ev.class(format!("acc:{:?}", case.acc));
    let mut net: Network = build(spec).map_err(|p| Fail::new(format!("valid network rejected: {} ({:?})", p, spec)))?;
    net.set_accumulation(case.acc.lib(), Acc::Mean.lib());

    // (a) acceptance model
    let mut accepted: Vec<(usize, usize)> = Vec::new();
    let mut reversed_accepted = false;
    for (a, b) in &case.calls {
        let (a, b) = (*a, *b);
        // sources pairwise distinct and targets pairwise distinct => must be accepted
        let must_accept = a <= b && accepted.iter().all(|(pa, pb)| *pa != a && *pb != b);
        if a > b {
            ev.class("connect call with decreasing indices (outside a <= b)");
        }
        match catch(std::panic::AssertUnwindSafe(|| net.connect(a, b))) {
            Ok(()) => {
                if a > b {
                    reversed_accepted = true; // meaning undefined by the property: only the survival of earlier connections is checked
                } else {
                    accepted.push((a, b))
                }
            }
            Err(p) => {
                if must_accept {
                    return Err(Fail::known(
                        format!("connect({}, {}) was rejected although its source and its target differ from those of the earlier connections {:?}: {}", a, b, accepted, p),
                        "connect_duplicate_check_on_wrong_key",
                    ));
                }
            }
        }
        // every earlier accepted connection must still be present (kept, or the new call rejected)
        for (pa, pb) in &accepted {
            if net.connect.get(pb) != Some(pa) {
                return Err(Fail::known(
                    format!("after connect({}, {}) the earlier connection ({}, {}) is gone: layer {} now receives the input of {:?}; accepted calls {:?}", a, b, pa, pb, pb, net.connect.get(pb), accepted),
                    "connect_duplicate_check_on_wrong_key",
                ));
            }
        }
    }
    // debugging aid for collecting separate replays per root cause (not used by the registered checks)
    let focus = std::env::var("NVERIF_FOCUS").unwrap_or_default();
    if focus == "accept" {
        return Ok(());
    }
    if reversed_accepted {
        ev.class("a call with decreasing indices was accepted (forward model not applied)");
        return Ok(());
    }
    if accepted.is_empty() {
        ev.discard = Some("no connection accepted");
        return Ok(());
    }
    // de-duplicate identical pairs
    accepted.sort();
    accepted.dedup();
    let rep_spatial = |i: usize| -> bool { (if i == 0 { spec.input.len() == 3 } else { spec.layers[i - 1].is_spatial() }) && spec.layers[i].is_spatial() };
    let crossing = accepted.iter().any(|(a, b)| rep_spatial(*a) != rep_spatial(*b));
    if crossing {
        ev.class("crossing representations");
    }
    if accepted.len() >= 2 {
        ev.class(">=2 connections");
    }
    let self_conn = accepted.iter().any(|(a, b)| a == b);
    let shared_source = accepted.iter().any(|(a, b)| accepted.iter().any(|(a2, b2)| a2 == a && b2 != b));
    if self_conn {
        ev.class("a == b");
    }
    if (focus == "noself" || focus == "plain") && self_conn {
        return Ok(());
    }
    if focus == "plain" && shared_source {
        return Ok(());
    }
    if shared_source {
        ev.class("shared source");
    }

    let ps = seeded_params(&net, spec, case.wseed, 1, 1.0);
    apply_params(&mut net, &ps);
    let x = payload(case.xseed, 3, count(&spec.input), 1.0);
    let xt = tens::build(&spec.input, &x);

    // (b) forward model: layer b receives acc(ordinary input, reshape(input fed to layer a)).
    // When a source is itself a target, "the input fed to layer a" can be read as the raw output of
    // the preceding layer or as the accumulated tensor; both readings are accepted.
    let model = |accumulated_source: bool| -> Result<Tensor, String> {
        catch(|| {
            let mut raw_inputs: Vec<Tensor> = Vec::new();
            let mut fed_inputs: Vec<Tensor> = Vec::new();
            let mut cur = xt.clone();
            for (i, l) in net.layers.iter().enumerate() {
                raw_inputs.push(cur.clone());
                let mut xin = cur.clone();
                if let Some((a, _)) = accepted.iter().find(|(_, b)| *b == i) {
                    let src = if *a == i { cur.clone() } else if accumulated_source { fed_inputs[*a].clone() } else { raw_inputs[*a].clone() };
                    let src = if src.shape != xin.shape { src.reshape(xin.shape.clone()) } else { src };
                    xin = accumulate(case.acc, &xin, &[src]);
                }
                fed_inputs.push(xin.clone());
                let (_, post) = layer_forward(l, &xin);
                cur = post;
            }
            cur
        })
    };
    let got = match catch(|| net.predict(&xt)) {
        Ok(g) => g,
        Err(p) => fail!("predict panicked with connections {:?} ({:?}): {}; spec {:?}", accepted, case.acc, p, spec),
    };
    let chain = accepted.iter().any(|(a, _)| accepted.iter().any(|(_, b2)| b2 == a));
    let m1 = model(false).map_err(|p| Fail::new(format!("harness model panicked: {p}")))?;
    let close = |m: &Tensor| -> Option<(usize, f32, f32)> {
        let (g, mm) = (tens::flat(&got), tens::flat(m));
        if g.len() != mm.len() {
            return Some((0, 0.0, 0.0));
        }
        for i in 0..g.len() {
            if g[i].is_finite() && mm[i].is_finite() && ulps32(g[i], mm[i]) > 2 {
                return Some((i, g[i], mm[i]));
            }
        }
        None
    };
    if let Some((i, g, m)) = close(&m1) {
        let mut ok = false;
        if chain {
            if let Ok(m2) = model(true) {
                ok = close(&m2).is_none();
            }
        }
        if !ok {
            fail!(
                "connections {:?} with {:?} accumulation: output element {} is {:e}; feeding each target acc(ordinary input, reshaped source input) gives {:e}; spec {:?}",
                accepted, case.acc, i, g, m, spec
            );
        }
    }
    // effectiveness: removing any single connection must (generically) change the prediction
    ev.nontrivial = accepted.iter().any(|(a, b)| a < b);
    ev.set_sig(&(spec, &accepted, case.acc, case.gradient));

    // (c) additive accumulation: every parameter gradient is the exact derivative
    if case.gradient {
        ev.class("gradient-checked");
        let c = c01::Case {
            spec: spec.clone(),
            obj: case.obj,
            softmax_ce: false,
            wseed: case.wseed,
            wmode: 1,
            xseed: case.xseed,
            tseed: case.tseed,
            learn_step: false,
            isolation: false,
            connects: accepted.clone(),
            // one gradient case in three: the network is trained first, the last 1..n connections are added afterwards
            after_learn: case.tseed % 3 == 0,
            late_connects: if case.tseed % 3 == 0 { 1 + (case.tseed as usize / 3) % accepted.len() } else { 0 },
            near_optimum: false,
            wscale: 1.5,
        };
        let mut ev2 = CaseEv::default();
        let r = c01::check(&c, &mut ev2, tier);
        for (n, v) in ev2.ratios {
            ev.ratio(n, v);
        }
        for c in ev2.classes.iter().filter(|c| c.contains("after training") || c.contains("after learn")) {
            ev.class(c.clone());
        }
        if let Some(d) = ev2.discard {
            ev.class(format!("gradient part discarded: {}", d));
        }
        if let Err(f) = r {
            let msg = format!("with additive skip connections {:?}: {}", accepted, f.msg);
            if self_conn {
                return Err(Fail::known(msg, "skip_connection_to_itself_backward"));
            }
            if shared_source {
                return Err(Fail::known(msg, "skip_shared_source_backward"));
            }
            return Err(Fail::new(msg));
        }
    }
    Ok(())
}

pub struct C16(pub Tier);

impl Prop for C16 {
    fn id(&self) -> &'static str {
        "C16"
    }
    fn tape_len(&self, _t: Tier) -> usize {
        96
    }
    fn cases(&self, t: Tier) -> usize {
        t.pick(200_000, 10_000_000)
    }
    fn rule(&self) -> String {
        "tape-decoded 2-5-layer network (dense / convolution / deconvolution / max-pool, steered so that element counts repeat, flat<->spatial crossings occur; one case in 100 is a flat network of width 65-300 throughout, gradient-checked up to width 130) + 1-3 connect(a, b) calls drawn from all pairs a <= b with equal element counts (one later call in eight with its indices swapped: it may be refused, but must not make an earlier connection disappear) (a = b, a = 0, repeated targets, repeated sources, chains (0,1),(1,2)) + one of five accumulations. Oracles: (a) acceptance model - calls with sources and targets distinct from earlier ones must be accepted, and after every accepted call all earlier pairs must still be present; (b) predict == hand-composition of the library's own layers where layer b receives acc(ordinary input, reshape(input of a)) (<= 2 ulp; when a source is itself a target both readings of 'its input' are accepted); (c) in 1/3 of the cases, additive accumulation and the C01 derivative check (f64 reference network with the skip connections) on every parameter gradient; in a third of those the network is first trained for two epochs with only the earlier connections and the last 1..n connections are added afterwards (history: build, connect, learn, connect, differentiate). Non-trivial: an accepted connection with a < b. Distinct = (architecture, accepted connections, accumulation).".into()
    }
    fn run_case(&self, tape: &[u32], ev: &mut CaseEv) -> CheckResult {
        check(&decode(tape), ev, self.0)
    }
    fn describe(&self, tape: &[u32]) -> Value {
        let c = decode(tape);
        json!({"spec": format!("{:?}", c.spec), "calls": c.calls, "acc": format!("{:?}", c.acc), "gradient": c.gradient, "objective": format!("{:?}", c.obj)})
    }
}

pub fn run(eng: &Engine, replay_path: Option<&str>) -> i32 {
    let p = C16(eng.tier);
    if let Some(path) = replay_path {
        return replay(&p, eng, path);
    }
    standard_run(&p, eng)
}
