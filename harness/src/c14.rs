//! C14 — reshaping and flattening preserve the row-major element sequence.

use crate::engine::*;
use crate::tape::Tape;
use crate::tens;
use crate::{ensure, fail};
use neurons::tensor::{Shape, Tensor};
use serde_json::{json, Value};

#[derive(Debug, Clone)]
enum Op {
    Flatten,
    GetFlat,
    GetTriple,      // from a vector + target triple shape
    ReshapeTT,      // triple -> triple (equal count)
    ReshapeST,      // single -> triple
    ReshapeTS,      // triple -> single
    Unequal(u8),    // 0: T->T, 1: S->T, 2: T->S with a different element count: must be refused
    Chain(usize),   // chain of reshapes through factorizations and back
    Constructors,
}

#[derive(Debug, Clone)]
struct Case {
    op: Op,
    src: [usize; 3],
    dst: [usize; 3],
    content: u32, // payload mode
    seed: u32,
    steps: Vec<[usize; 3]>,
}

fn factorizations(n: usize) -> Vec<[usize; 3]> {
    let mut out = Vec::new();
    for a in 1..=n {
        if n % a != 0 {
            continue;
        }
        let m = n / a;
        for b in 1..=m {
            if m % b == 0 {
                out.push([a, b, m / b]);
            }
        }
    }
    out
}

fn decode(tape: &[u32], tier: Tier) -> Case {
    let mut t = Tape::new(tape);
    let maxdim = tier.pick(6, 12);
    let k = t.pick(9);
    let mut src = [t.usize(1, maxdim), t.usize(1, maxdim), t.usize(1, maxdim)];
    // one case in 40: a large tensor (>= 16384 elements), channel counts that are not powers of two included
    let large = t.chance(1, 40);
    if large {
        src = [t.usize(1, 7), t.usize(48, 96), t.usize(48, 96)];
        while src[0] * src[1] * src[2] < 16384 {
            src[0] += 1;
        }
    }
    let n = src[0] * src[1] * src[2];
    // large tensors: only a few factorisations are enumerated (cost)
    let facts = if large {
        let (c, h, w) = (src[0], src[1], src[2]);
        let mut f = vec![[c, h, w], [1, c * h, w], [c * h, 1, w], [c, w, h], [1, 1, n], [n, 1, 1]];
        if c % 2 == 0 { f.push([c / 2, h * 2, w]); }
        if h % 2 == 0 { f.push([c * 2, h / 2, w]); }
        if w % 2 == 0 { f.push([c * 2, h, w / 2]); }
        if h % 3 == 0 { f.push([c * 3, h / 3, w]); }
        f
    } else {
        factorizations(n)
    };
    let dst = facts[t.pick(facts.len())];
    let content = t.pick(4) as u32;
    let seed = t.raw();
    let op = match k {
        0 => Op::Flatten,
        1 => Op::GetFlat,
        2 => Op::GetTriple,
        3 => Op::ReshapeTT,
        4 => Op::ReshapeST,
        5 => Op::ReshapeTS,
        6 => Op::Unequal(t.pick(3) as u8),
        7 => Op::Chain(t.usize(1, 5)),
        _ => Op::Constructors,
    };
    let mut steps = Vec::new();
    if let Op::Chain(len) = op {
        for _ in 0..len {
            steps.push(facts[t.pick(facts.len())]);
        }
    }
    let mut dst = dst;
    if let Op::Unequal(_) = op {
        // a target with a different element count: perturb one axis
        let ax = t.pick(3);
        let delta = t.usize(1, 3);
        dst = [t.usize(1, maxdim), t.usize(1, maxdim), t.usize(1, maxdim)];
        if dst[0] * dst[1] * dst[2] == n {
            dst[ax] += delta;
        }
    }
    Case { op, src, dst, content, seed, steps }
}

/// distinct contents: index-coded values (exactly representable) mixed with special bit patterns
fn contents(n: usize, mode: u32, seed: u32) -> Vec<f32> {
    match mode {
        0 => (0..n).map(|i| i as f32 + 1.0).collect(),
        1 => (0..n).map(|i| (i as f32) * 0.5 - (n as f32) * 0.25 + 0.125).collect(),
        2 => {
            // distinct payload plus signed zero / subnormal / large entries at seed-chosen places
            let mut v: Vec<f32> = (0..n).map(|i| (i as f32 + 1.0) * 1.0009765625).collect();
            let specials = [-0.0f32, 0.0, f32::from_bits(1), -f32::from_bits(7), f32::MAX, f32::MIN, 1e-38, -1e38, f32::INFINITY, f32::NEG_INFINITY];
            for (j, s) in specials.iter().enumerate() {
                let pos = (seed as usize).wrapping_mul(2654435761).wrapping_add(j * 7919) % n;
                v[pos] = *s;
            }
            // a NaN (a legitimate content: every operation here only moves values) in a seed-chosen place, in half of
            // those cases the very last one
            if seed & 4 == 0 {
                let pos = if seed & 8 == 0 { n - 1 } else { (seed as usize >> 4) % n };
                v[pos] = f32::NAN;
            }
            v
        }
        _ => crate::tape::payload(seed, 1, n, 8.0),
    }
}

fn check_triple_rowmajor(t: &Tensor, dims: [usize; 3], seq: &[f32], what: &str) -> CheckResult {
    ensure!(t.shape == Shape::Triple(dims[0], dims[1], dims[2]), "{}: recorded shape {:?} != {:?}", what, t.shape, dims);
    ensure!(tens::consistent(t), "{}: recorded shape {:?} does not match the nested data {:?}", what, t.shape, tens::data_dims(t));
    let d = t.as_triple();
    for c in 0..dims[0] {
        for h in 0..dims[1] {
            for w in 0..dims[2] {
                let idx = c * dims[1] * dims[2] + h * dims[2] + w;
                ensure!(
                    d[c][h][w].to_bits() == seq[idx].to_bits(),
                    "{}: element [{}][{}][{}] = {:e} but row-major position {} of the source holds {:e}",
                    what, c, h, w, d[c][h][w], idx, seq[idx]
                );
            }
        }
    }
    Ok(())
}

fn check_single(t: &Tensor, seq: &[f32], what: &str) -> CheckResult {
    ensure!(t.shape == Shape::Single(seq.len()), "{}: recorded shape {:?} != Single({})", what, t.shape, seq.len());
    ensure!(tens::consistent(t), "{}: shape/data mismatch", what);
    let f = tens::flat(t);
    if let Some(i) = tens::first_bit_diff(&f, seq) {
        fail!("{}: sequence differs at position {} ({:?} vs {:?})", what, i, f.get(i), seq.get(i));
    }
    Ok(())
}

fn check(case: &Case, ev: &mut CaseEv) -> CheckResult {
    let n = case.src[0] * case.src[1] * case.src[2];
    let seq = contents(n, case.content, case.seed);
    // one case in four: the rows of the source are vectors with spare capacity (filled element by element into
    // pre-sized buffers, as a caller building a tensor incrementally would); `Vec::clone` drops spare capacity, so
    // such a source is built afresh wherever the check below needs an owned copy
    let spare = (case.seed >> 9) & 3 == 3;
    let mk3 = || -> Tensor {
        if !spare {
            return tens::triple(case.src[0], case.src[1], case.src[2], &seq);
        }
        let (h, w) = (case.src[1], case.src[2]);
        let extra = 1 + (case.seed as usize >> 11) % 7;
        let data: Vec<Vec<Vec<f32>>> = (0..case.src[0])
            .map(|c| {
                (0..h)
                    .map(|r| {
                        let mut row = Vec::with_capacity(w + if (c + r) % 2 == 0 { extra } else { 2 * extra });
                        for k in 0..w {
                            row.push(seq[(c * h + r) * w + k]);
                        }
                        row
                    })
                    .collect()
            })
            .collect();
        Tensor::triple(data)
    };
    let src3 = mk3();
    if spare {
        ev.class("source rows with spare capacity");
    }
    let big_axes = case.src.iter().filter(|&&d| d > 1).count();
    let nonsquare = case.src[1] != case.src[2];
    ev.nontrivial = big_axes >= 2 && nonsquare;
    ev.set_sig(&(format!("{:?}", case.op), case.src, case.dst));
    ev.class(format!("{:?}", case.op).split('(').next().unwrap().to_string());
    if case.src.iter().any(|&d| d == 1) {
        ev.class("has-axis-of-size-1");
    }
    let d3 = Shape::Triple(case.dst[0], case.dst[1], case.dst[2]);
    match &case.op {
        Op::Flatten => {
            let f = catch(|| src3.flatten()).map_err(|p| Fail::new(format!("flatten panicked: {p}")))?;
            check_single(&f, &seq, "flatten(3-D)")?;
            let s = Tensor::single(seq.clone());
            let f2 = catch(|| s.flatten()).map_err(|p| Fail::new(format!("flatten(vector) panicked: {p}")))?;
            check_single(&f2, &seq, "flatten(vector)")
        }
        Op::GetFlat => {
            let f = catch(|| src3.get_flat()).map_err(|p| Fail::new(format!("get_flat panicked: {p}")))?;
            if let Some(i) = tens::first_bit_diff(&f, &seq) {
                fail!("get_flat(3-D {:?}) differs from row-major order at {}", case.src, i);
            }
            let f = Tensor::single(seq.clone()).get_flat();
            ensure!(tens::first_bit_diff(&f, &seq).is_none(), "get_flat(vector) changed the sequence");
            Ok(())
        }
        Op::GetTriple => {
            let s = Tensor::single(seq.clone());
            let d = catch(|| s.get_triple(&d3)).map_err(|p| Fail::new(format!("get_triple panicked: {p}")))?;
            let t = Tensor::triple(d);
            check_triple_rowmajor(&t, case.dst, &seq, "get_triple(vector, shape)")?;
            let d = src3.get_triple(&d3);
            check_triple_rowmajor(&Tensor::triple(d), case.src, &seq, "get_triple(3-D) (identity)")
        }
        Op::ReshapeTT => {
            let r = catch(|| mk3().reshape(d3.clone())).map_err(|p| Fail::new(format!("reshape {:?}->{:?} (equal count) refused: {p}", case.src, case.dst)))?;
            check_triple_rowmajor(&r, case.dst, &seq, "reshape 3-D -> 3-D")?;
            let back = catch(|| r.reshape(Shape::Triple(case.src[0], case.src[1], case.src[2]))).map_err(|p| Fail::new(format!("reshape back refused: {p}")))?;
            check_triple_rowmajor(&back, case.src, &seq, "reshape there and back")
        }
        Op::ReshapeST => {
            let s = Tensor::single(seq.clone());
            let r = catch(|| s.reshape(d3.clone())).map_err(|p| Fail::new(format!("reshape vector({})->{:?} refused: {p}", n, case.dst)))?;
            check_triple_rowmajor(&r, case.dst, &seq, "reshape vector -> 3-D")?;
            let back = catch(|| r.reshape(Shape::Single(n))).map_err(|p| Fail::new(format!("reshape back refused: {p}")))?;
            check_single(&back, &seq, "reshape vector -> 3-D -> vector")
        }
        Op::ReshapeTS => {
            let r = catch(|| mk3().reshape(Shape::Single(n))).map_err(|p| Fail::new(format!("reshape {:?}->vector refused: {p}", case.src)))?;
            check_single(&r, &seq, "reshape 3-D -> vector")?;
            let back = catch(|| r.reshape(Shape::Triple(case.src[0], case.src[1], case.src[2]))).map_err(|p| Fail::new(format!("reshape back refused: {p}")))?;
            check_triple_rowmajor(&back, case.src, &seq, "reshape 3-D -> vector -> 3-D")
        }
        Op::Unequal(kind) => {
            let m = case.dst[0] * case.dst[1] * case.dst[2];
            ensure!(m != n, "harness: unequal case has equal counts");
            let r = match kind {
                0 => catch(|| mk3().reshape(d3.clone())).map(|t| (t.shape.clone(), tens::flat(&t).len())),
                1 => catch(|| Tensor::single(seq.clone()).reshape(d3.clone())).map(|t| (t.shape.clone(), tens::flat(&t).len())),
                _ => catch(|| mk3().reshape(Shape::Single(m))).map(|t| (t.shape.clone(), tens::flat(&t).len())),
            };
            match r {
                Err(_) => Ok(()), // refused
                Ok((shape, len)) => fail!(
                    "reshape kind {} from {} elements {:?} to {} elements {:?} was accepted (result shape {:?}, {} elements)",
                    kind, n, case.src, m, case.dst, shape, len
                ),
            }
        }
        Op::Chain(_) => {
            let mut cur = mk3();
            let mut dims_hist = vec![case.src];
            for (i, st) in case.steps.iter().enumerate() {
                let via_vec = (case.seed >> i) & 1 == 1;
                cur = catch(|| {
                    if via_vec {
                        cur.clone().reshape(Shape::Single(n)).reshape(Shape::Triple(st[0], st[1], st[2]))
                    } else {
                        cur.clone().reshape(Shape::Triple(st[0], st[1], st[2]))
                    }
                })
                .map_err(|p| Fail::new(format!("chain step {} to {:?} refused: {p}", i, st)))?;
                check_triple_rowmajor(&cur, *st, &seq, &format!("chain step {i}"))?;
                dims_hist.push(*st);
            }
            // and all the way back
            for st in dims_hist.iter().rev().skip(1) {
                cur = catch(|| cur.clone().reshape(Shape::Triple(st[0], st[1], st[2]))).map_err(|p| Fail::new(format!("chain back refused: {p}")))?;
            }
            check_triple_rowmajor(&cur, case.src, &seq, "chain there and back")
        }
        Op::Constructors => {
            for rank in 1..=4usize {
                let dims: Vec<usize> = match rank {
                    1 => vec![n],
                    2 => vec![case.src[0], case.src[1] * case.src[2]],
                    3 => case.src.to_vec(),
                    _ => vec![case.dst[0], case.dst[1], case.dst[2], 1],
                };
                let t = tens::build(&dims, &seq);
                ensure!(tens::consistent(&t), "constructor rank {}: shape {:?} vs data {:?}", rank, t.shape, tens::data_dims(&t));
                ensure!(tens::first_bit_diff(&tens::flat(&t), &seq).is_none(), "constructor rank {} reordered data", rank);
                for (name, z) in [("zeros", Tensor::zeros(tens::shape_of(&dims))), ("ones", Tensor::ones(tens::shape_of(&dims)))] {
                    ensure!(tens::consistent(&z) && z.shape == tens::shape_of(&dims), "{} rank {}: shape mismatch", name, rank);
                    let want = if name == "zeros" { 0.0f32 } else { 1.0 };
                    ensure!(tens::flat(&z).iter().all(|x| x.to_bits() == want.to_bits()) && tens::flat(&z).len() == n, "{} rank {} contents", name, rank);
                }
            }
            Ok(())
        }
    }
}

pub struct C14(pub Tier);

impl Prop for C14 {
    fn id(&self) -> &'static str {
        "C14"
    }
    fn tape_len(&self, _t: Tier) -> usize {
        24
    }
    fn cases(&self, t: Tier) -> usize {
        t.pick(1_000_000, 100_000_000)
    }
    fn rule(&self) -> String {
        "tape-decoded (operation, source shape with axes 1..6 (thorough 1..12; one case in 40 is a large tensor of >= 16384 elements with 1..7+ channels), target = a factorisation of the element count or a shape with a different count, contents class incl. signed zeros/subnormals/f32::MAX/+-infinity/NaN (also in the last position), chains of up to 5 reshapes optionally via a vector; in one case of four the rows of the 3-D source are vectors with spare capacity, filled element by element). Oracle: explicit row-major index arithmetic c*H*W+h*W+w, bitwise. Non-trivial: >= 2 axes > 1 and height != width. Distinct = (operation, source shape, target shape).".into()
    }
    fn run_case(&self, tape: &[u32], ev: &mut CaseEv) -> CheckResult {
        check(&decode(tape, self.0), ev)
    }
    fn describe(&self, tape: &[u32]) -> Value {
        json!(format!("{:?}", decode(tape, self.0)))
    }
}

pub fn run(eng: &Engine, replay_path: Option<&str>) -> i32 {
    let p = C14(eng.tier);
    if let Some(path) = replay_path {
        return replay(&p, eng, path);
    }
    standard_run(&p, eng)
}
