//! 64-bit reference operators written from the mathematical definitions. No code shared with /repo.

#[derive(Clone, Copy, Debug, PartialEq, Eq, Hash)]
pub enum ActK {
    Linear,
    Tanh,
    Sigmoid,
    ReLU,
    Leaky,
    Softmax,
}

pub const ELEMENTWISE: [ActK; 5] = [ActK::Linear, ActK::Tanh, ActK::Sigmoid, ActK::ReLU, ActK::Leaky];

pub fn act(k: ActK, x: &[f64]) -> Vec<f64> {
    match k {
        ActK::Linear => x.to_vec(),
        ActK::Tanh => x.iter().map(|v| v.tanh()).collect(),
        ActK::Sigmoid => x.iter().map(|v| 1.0 / (1.0 + (-v).exp())).collect(),
        ActK::ReLU => x.iter().map(|v| if *v > 0.0 { *v } else { 0.0 }).collect(),
        ActK::Leaky => x.iter().map(|v| if *v > 0.0 { *v } else { 0.01 * v }).collect(),
        ActK::Softmax => {
            let m = x.iter().cloned().fold(f64::NEG_INFINITY, f64::max);
            let e: Vec<f64> = x.iter().map(|v| (v - m).exp()).collect();
            let s: f64 = e.iter().sum();
            e.iter().map(|v| v / s).collect()
        }
    }
}

/// y = W x + b, W row-major (out x inp). Returns (y, magnitude sum per output).
pub fn dense(w: &[f64], b: Option<&[f64]>, x: &[f64], out: usize) -> (Vec<f64>, Vec<f64>) {
    let inp = x.len();
    assert_eq!(w.len(), out * inp);
    let mut y = vec![0.0; out];
    let mut mag = vec![0.0; out];
    for o in 0..out {
        let mut s = 0.0;
        let mut m = 0.0;
        for i in 0..inp {
            let t = w[o * inp + i] * x[i];
            s += t;
            m += t.abs();
        }
        if let Some(b) = b {
            s += b[o];
            m += b[o].abs();
        }
        y[o] = s;
        mag[o] = m;
    }
    (y, mag)
}

#[derive(Clone, Copy, Debug, PartialEq, Eq, Hash)]
pub struct ConvCfg {
    pub filters: usize,
    pub kernel: (usize, usize),
    pub stride: (usize, usize),
    pub padding: (usize, usize),
    pub dilation: (usize, usize),
}

/// Standard output size floor((n + 2p - d(k-1) - 1)/s) + 1; None when the effective kernel does
/// not fit the padded input.
pub fn conv_out(n: usize, k: usize, s: usize, p: usize, d: usize) -> Option<usize> {
    let eff = d * (k - 1) + 1;
    if n + 2 * p < eff || s == 0 || k == 0 || d == 0 {
        return None;
    }
    Some((n + 2 * p - eff) / s + 1)
}

/// (n - 1) s + k - 2p; None when not positive.
pub fn deconv_out(n: usize, k: usize, s: usize, p: usize) -> Option<usize> {
    let v = (n as i64 - 1) * s as i64 + k as i64 - 2 * p as i64;
    if v >= 1 && s >= 1 && k >= 1 {
        Some(v as usize)
    } else {
        None
    }
}

/// floor((n - k)/s) + 1
pub fn pool_out(n: usize, k: usize, s: usize) -> Option<usize> {
    if k == 0 || s == 0 || k > n {
        return None;
    }
    Some((n - k) / s + 1)
}

/// Zero-padded, strided, dilated cross-correlation.
/// x: c x h x w, k: f x c x kh x kw. Returns (y: f x oh x ow, mag, (f, oh, ow)).
pub fn conv(x: &[f64], dims: (usize, usize, usize), k: &[f64], cfg: &ConvCfg) -> (Vec<f64>, Vec<f64>, (usize, usize, usize)) {
    let (c, h, w) = dims;
    let (kh, kw) = cfg.kernel;
    let oh = conv_out(h, kh, cfg.stride.0, cfg.padding.0, cfg.dilation.0).expect("conv fits");
    let ow = conv_out(w, kw, cfg.stride.1, cfg.padding.1, cfg.dilation.1).expect("conv fits");
    let f = cfg.filters;
    assert_eq!(k.len(), f * c * kh * kw);
    assert_eq!(x.len(), c * h * w);
    let mut y = vec![0.0; f * oh * ow];
    let mut mag = vec![0.0; f * oh * ow];
    for ff in 0..f {
        for i in 0..oh {
            for j in 0..ow {
                let mut s = 0.0;
                let mut m = 0.0;
                for cc in 0..c {
                    for u in 0..kh {
                        for v in 0..kw {
                            let ph = (i * cfg.stride.0 + u * cfg.dilation.0) as i64 - cfg.padding.0 as i64;
                            let pw = (j * cfg.stride.1 + v * cfg.dilation.1) as i64 - cfg.padding.1 as i64;
                            if ph >= 0 && pw >= 0 && (ph as usize) < h && (pw as usize) < w {
                                let t = k[((ff * c + cc) * kh + u) * kw + v] * x[(cc * h + ph as usize) * w + pw as usize];
                                s += t;
                                m += t.abs();
                            }
                        }
                    }
                }
                y[(ff * oh + i) * ow + j] = s;
                mag[(ff * oh + i) * ow + j] = m;
            }
        }
    }
    (y, mag, (f, oh, ow))
}

/// Strided transposed convolution cropped by the padding.
/// y[f, i*s+u-p, j*s+v-p] += x[c,i,j] * k[f,c,u,v]
pub fn deconv(x: &[f64], dims: (usize, usize, usize), k: &[f64], cfg: &ConvCfg) -> (Vec<f64>, Vec<f64>, (usize, usize, usize)) {
    let (c, h, w) = dims;
    let (kh, kw) = cfg.kernel;
    let oh = deconv_out(h, kh, cfg.stride.0, cfg.padding.0).expect("deconv fits");
    let ow = deconv_out(w, kw, cfg.stride.1, cfg.padding.1).expect("deconv fits");
    let f = cfg.filters;
    assert_eq!(k.len(), f * c * kh * kw);
    let mut y = vec![0.0; f * oh * ow];
    let mut mag = vec![0.0; f * oh * ow];
    for ff in 0..f {
        for cc in 0..c {
            for i in 0..h {
                for j in 0..w {
                    for u in 0..kh {
                        for v in 0..kw {
                            let oi = (i * cfg.stride.0 + u) as i64 - cfg.padding.0 as i64;
                            let oj = (j * cfg.stride.1 + v) as i64 - cfg.padding.1 as i64;
                            if oi >= 0 && oj >= 0 && (oi as usize) < oh && (oj as usize) < ow {
                                let t = x[(cc * h + i) * w + j] * k[((ff * c + cc) * kh + u) * kw + v];
                                y[(ff * oh + oi as usize) * ow + oj as usize] += t;
                                mag[(ff * oh + oi as usize) * ow + oj as usize] += t.abs();
                            }
                        }
                    }
                }
            }
        }
    }
    (y, mag, (f, oh, ow))
}

/// Max over each window. Also returns the smallest gap between the largest and second largest
/// value over all windows (tie margin; +inf for 1-element windows).
pub fn maxpool(x: &[f64], dims: (usize, usize, usize), kernel: (usize, usize), stride: (usize, usize)) -> (Vec<f64>, (usize, usize, usize), f64) {
    let (c, h, w) = dims;
    let oh = pool_out(h, kernel.0, stride.0).expect("pool fits");
    let ow = pool_out(w, kernel.1, stride.1).expect("pool fits");
    let mut y = vec![0.0; c * oh * ow];
    let mut gap = f64::INFINITY;
    for cc in 0..c {
        for i in 0..oh {
            for j in 0..ow {
                let mut best = f64::NEG_INFINITY;
                let mut second = f64::NEG_INFINITY;
                for u in 0..kernel.0 {
                    for v in 0..kernel.1 {
                        let val = x[(cc * h + i * stride.0 + u) * w + j * stride.1 + v];
                        if val > best {
                            second = best;
                            best = val;
                        } else if val > second {
                            second = val;
                        }
                    }
                }
                y[(cc * oh + i) * ow + j] = best;
                if second > f64::NEG_INFINITY {
                    gap = gap.min(best - second);
                }
            }
        }
    }
    (y, (c, oh, ow), gap)
}

#[derive(Clone, Copy, Debug, PartialEq, Eq, Hash)]
pub enum ObjK {
    AE,
    MAE,
    MSE,
    RMSE,
    CE,
    BCE,
    KL,
}

pub const OBJS: [ObjK; 7] = [ObjK::AE, ObjK::MAE, ObjK::MSE, ObjK::RMSE, ObjK::CE, ObjK::BCE, ObjK::KL];

/// Loss value by the documented formulas (f64 predictions).
pub fn loss(o: ObjK, p: &[f64], t: &[f64]) -> f64 {
    let n = p.len() as f64;
    let eps = 1e-6f32 as f64;
    let hi = (1.0f32 - 1e-6f32) as f64;
    let mut s = 0.0;
    for i in 0..p.len() {
        let (pd, td) = (p[i], t[i]);
        let pc = pd.clamp(eps, hi);
        s += match o {
            ObjK::AE => (td - pd).abs(),
            ObjK::MAE => (td - pd).abs() / n,
            ObjK::MSE | ObjK::RMSE => (td - pd) * (td - pd) / n,
            ObjK::CE => -(td * pc.ln()),
            ObjK::BCE => -(td * pc.ln() + (1.0 - td) * (1.0 - pc).ln()),
            ObjK::KL => {
                if td == 0.0 {
                    0.0
                } else {
                    td * (td / pc).ln()
                }
            }
        };
    }
    if o == ObjK::RMSE {
        s.sqrt()
    } else {
        s
    }
}

/// The objective's documented gradient (what the library hands to back-propagation).
pub fn loss_grad(o: ObjK, p: &[f64], t: &[f64]) -> Vec<f64> {
    let n = p.len() as f64;
    let eps = 1e-6f32 as f64;
    let hi = (1.0f32 - 1e-6f32) as f64;
    (0..p.len())
        .map(|i| {
            let (pd, td) = (p[i], t[i]);
            let pc = pd.clamp(eps, hi);
            let sign = if pd > td { 1.0 } else if pd < td { -1.0 } else { 0.0 };
            match o {
                ObjK::AE | ObjK::MAE => sign,
                ObjK::MSE => -2.0 * (td - pd) / n,
                ObjK::RMSE => sign / n,
                ObjK::CE => pd - td,
                ObjK::BCE => (pc - td) / (pc * (1.0 - pc)),
                ObjK::KL => -td / pc,
            }
        })
        .collect()
}
