#![no_main]
// libFuzzer bytes -> little-endian u32 tape -> the same decode + check pair that proptest drives.
// Property chosen by NVERIF_FUZZ_PROP (see nverif::fuzz_entry).
use libfuzzer_sys::fuzz_target;

fuzz_target!(|data: &[u8]| {
    nverif::fuzz_entry(data);
});
